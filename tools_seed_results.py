#!/usr/bin/env python3
"""Turns the log of tools_run_seeds.sh into seeded/RESULTS.md."""
import json, os, re, sys
log = sys.argv[1] if len(sys.argv) > 1 else "/tmp/seeds_all.log"
rows = []
for line in open(log):
    m = re.match(r"(C\d+-\d): check=(C\d+) tier=(\w+) exit=(\d+) violations=(\d+) time=(\d+)s :: *(.*)", line)
    if m:
        sid, prop, tier, rc, nv, t, rest = m.groups()
        meta = json.load(open("/verif/seeded/%s/meta.json" % sid))
        rows.append((sid, prop, rc, nv, t, meta.get("summary", "")[:140].replace("|", "/"), rest[:160].replace("|", "/")))
    elif re.match(r"C\d+-\d:", line):
        rows.append((line.split(":")[0], "", "?", "?", "?", "", line.strip()[:160]))
with open("/verif/seeded/RESULTS.md", "w") as f:
    f.write("# Seeded changes vs. quick checks (last full run of tools_run_seeds.sh)\n\n")
    f.write("Each change was applied to /repo (`git apply`), the property's quick check was run, the change undone.\n")
    f.write("exit 1 = VIOLATION reported (counterexample replayed on the real stack); 3 = harness error (inconclusive); 0 = missed.\n\n")
    f.write("| seed | exit | violations | time s | what was changed | first violation reported |\n|---|---|---|---|---|---|\n")
    for r in rows:
        f.write("| %s | %s | %s | %s | %s | %s |\n" % (r[0], r[2], r[3], r[4], r[5], r[6]))
    caught = sum(1 for r in rows if r[2] == "1")
    f.write("\n%d of %d seeded changes are reported as VIOLATION by their property's quick check.\n" % (caught, len(rows)))
print(open("/verif/seeded/RESULTS.md").read()[-200:])
