#!/bin/sh
# Builds /verif/.venv: a venv layered over /venv (the repository's environment)
# plus crosshair-tool / z3-solver from the offline wheelhouse.  Idempotent, offline.
set -e
cd "$(dirname "$0")"
V="$(pwd)/.venv"
if [ -x "$V/bin/python" ] && "$V/bin/python" -c "import crosshair, z3, simplejson, pyfaidx" 2>/dev/null; then
    echo "setup: $V already usable"; exit 0
fi
rm -rf "$V"
/venv/bin/python -m venv "$V"
SP=$("$V/bin/python" -c "import sysconfig; print(sysconfig.get_paths()['purelib'])")
# the repository's own dependencies (simplejson, pyfaidx, ...) come from /venv
printf "import site; site.addsitedir('/venv/lib/python3.12/site-packages')\n" > "$SP/zz_repo_env.pth"
PIP_NO_INDEX=1 "$V/bin/pip" install --quiet --no-index --find-links /opt/veriftools/wheels crosshair-tool z3-solver jsonschema
"$V/bin/python" -c "import crosshair, z3, simplejson, pyfaidx; print('setup: ok', z3.get_version_string())"
