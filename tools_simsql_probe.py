import sys, glob, os, sqlite3
sys.path[:0]=["/verif","/repo"]
import gffutils, gffutils.create as C, gffutils.interface as I
from vlib import simsql, env
import warnings; warnings.simplefilter("ignore")
def dump_real(db):
    out=[]
    for t in ("features","relations","meta","directives","autoincrements","duplicates"):
        cols=[r[1] for r in db.conn.execute("PRAGMA table_info(%s)"%t)]
        out.append((t,[list(r) for r in db.conn.execute("SELECT rowid,* FROM %s ORDER BY rowid"%t)]))
    return out
files=sorted(glob.glob("/repo/gffutils/test/data/*.g[tf]f")+glob.glob("/repo/gffutils/test/data/*.gff3"))
for fn in files:
    if os.path.getsize(fn)==0 or os.path.getsize(fn)>400000: continue
    for ms in ("create_unique","merge"):
        try:
            real=gffutils.create_db(fn,":memory:",merge_strategy=ms,keep_order=True)
            r=dump_real(real)
            kids_r=sorted((f.id,sorted(c.id for c in real.children(f,order_by="start"))) for f in real.all_features())
        except Exception as ex:
            r=("EXC",type(ex).__name__); kids_r=None
        env.install_simsql()
        try:
            simsql.reset()
            sim=gffutils.create_db(fn,simsql.Connection(),merge_strategy=ms,keep_order=True)
            s=simsql.snapshot(sim.conn.work)
            kids_s=sorted((f.id,sorted(c.id for c in sim.children(f,order_by="start"))) for f in sim.all_features())
        except NotImplementedError as ex:
            s=("NOTIMPL",str(ex)[:100]); kids_s=None
        except Exception as ex:
            s=("EXC",type(ex).__name__); kids_s=None
        finally:
            env.restore()
        same = (r==s) if isinstance(r,tuple) else all(a==b or (a[0]=='meta') for a,b in zip(r,s))
        print(os.path.basename(fn), ms, "SAME" if same and kids_r==kids_s else "DIFF", (r if isinstance(r,tuple) else ""), (s if isinstance(s,tuple) else ""))
        if not same and not isinstance(r,tuple) and not isinstance(s,tuple):
            for a,b in zip(r,s):
                if a!=b:
                    print("   table",a[0],len(a[1]),len(b[1] or []))
                    for x,y in zip(a[1],b[1]):
                        if x!=y: print("     ",x,"\n     ",y); break
