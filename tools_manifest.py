#!/usr/bin/env python3
"""Regenerates MANIFEST.json from the table below (kept in one place so it always validates)."""
import json, os
HERE = os.path.dirname(os.path.abspath(__file__))
BASE = "cd /repo && /venv/bin/python -m pytest -ra -q -p no:cacheprovider --timeout=900 --continue-on-collection-errors"
S = "symbolic execution of the real functions on z3-backed proxies (own explorer) + SMT validity queries (z3)"
X = "CrossHair symbolic execution of the real functions (z3 per path) over pure-Python stand-ins for sqlite/files/json"
CHECKS = {
 "C12": dict(engine="S", technique=S, design="4/C12",
   text="Every feasible path of the real bins.bins (both fmt, both one) is enumerated by the solver and obligations O1-O8 are discharged as SMT validity queries over ALL integers: no value bound; the only loop is over the module's constant 5-level table. Counterexamples are replayed on the real function.",
   note="Trusts z3 and the ~300-line proxy explorer (vlib/symx.py); integers are mathematical (=Python int). O7 is required only when the interval whose bin set is taken is in range (see DESIGN C12)."),
 "C06": dict(engine="S", technique=S + "; emitted SQL translated to SMT", design="4/C06",
   text="Every query shape of region()/limit= (tuple, keyword, 'seqid:start-end' string and Feature forms; one-sided; completely_within; strand/featuretype filters; children/parents JOIN forms) is run through the real region/make_query/bins code with symbolic coordinates and text; for every feasible path the emitted SQL's WHERE/ON is compared with the statement's predicate over a symbolic stored row by z3 - for all integer coordinates (bin boundaries and 2**29 are found by the solver, not enumerated). Counterexamples are replayed on real sqlite3.",
   note="Trusts z3, vlib/symx.py, and the SQL-subset semantics in vlib/sqlsmt.py (3-valued logic, BINARY collation, numeric affinity of decimal text); row invariant bin=bins(start,end) comes from the same run's summary of the real function (C12/O8 shows Feature computes that). Rows with '.' coordinates are outside the claim."),
 "C11": dict(engine="S", technique=S + "; emitted SQL translated to SMT (strings: z3 sequence theory)", design="4/C11",
   text="Every argument shape of all_features/features_of_type (featuretype None/str/collection, strand, order_by as string or tuple for every valid column incl. length and file_order, pairs, reverse) plus count_features_of_type/featuretypes/seqids is executed through the real make_query with symbolic text; WHERE and ORDER BY of the emitted SQL are compared with the statement over two symbolic rows (any strings, any ints). Counterexamples are replayed on real sqlite3 (the model, then a 300-row neighbour so that index-order effects show).",
   note="Trusts z3 string theory, vlib/symx.py, vlib/sqlsmt.py; assumes BINARY collation = code-point order and rowid order for an unfiltered scan without ORDER BY; reverse with several columns is unspecified by the statement and unchecked."),
 "C02": dict(engine="X", technique=X + "; plus Engine S (SQL->SMT) for children()/parents() argument shapes", design="4/C02",
   text="The real create_db (GFF importer, level-2 computation through its temp file), children(), parents() and iter_by_parent_childs run under CrossHair on 3 (thorough: 4) features whose Parent values are symbolic strings; the solver decides for each value whether it names a stored feature or dangles, so every DAG / shared child / dangling / child-before-parent arrangement within the bound is covered; results are compared as lists (each feature once) with the Parent graph at levels 1, 2, None and in the inverse direction. The level/featuretype/order_by argument shapes of the underlying query are decided for all values in Engine S. Counterexamples are replayed on real sqlite3.",
   note="Bounds: 3 features with <=1 parent (+ two-parent cases for the last feature) in quick; simsql/jsonbox/fakefs/bins_stub stand in for sqlite3/json/files/bins (simsql validated against real sqlite3 on the repository's own test data; every counterexample replayed on the real stack)."),
 "C16": dict(engine="X", technique=X.replace(" over pure-Python stand-ins for sqlite/files/json", ""), design="4/C16",
   text="The real FeatureDB.merge and every shipped merge criterion (alone and combined, thresholds symbolic) run under CrossHair on 3 (thorough: 4) start-ordered features with unbounded integer positions; partition law, run-accumulation rule (independent restatement of each criterion), extents = min/max, fresh distinct ids, inputs untouched, idempotence of re-merging are asserted and confirmed over all paths.",
   note="Feature lengths bounded (<=4 / <=6) because merge() uses Feature.__len__ for truthiness; seqid/strand/type range over two values; children_bp/merge_all (database side) are not yet covered."),
 "C15": dict(engine="X", technique=X, design="4/C15",
   text="The real interfeatures runs under CrossHair on 3 (thorough 4) features with unbounded positions, arbitrary seqid/strand characters and gaps up to the bound; per consecutive pair the statement's rule (exactly one gap feature prev.end+1..next.start-1, none for touching/overlapping/seqid change, type and strand rule) is asserted, inputs untouched. Attribute union (sorted, duplicate-free, ID joined by '-', numeric_sort, update_attributes) on arbitrary characters. create_introns/create_splice_sites over the simsql stand-in for a transcript with 1-2 (thorough 3) exons on any strand, exons in file order or reversed; database unchanged.",
   note="Gap sizes bounded (<=3; introns <=2) because `if new_feature:` is Feature.__len__; featuretypes concrete; numeric_sort over a finite alphabet; stand-ins bins_stub/jsonbox/simsql/fakefs; counterexamples replayed on the real stack."),
 "C17": dict(engine="X", technique=X, design="4/C17",
   text="Attributes/Feature setters (scalar, list, tuple; via mapping, Feature.__setitem__, update) always yield sequences and always_return_list only changes the view; merge_attributes = sorted duplicate-free union (numeric order under numeric_sort) without touching its arguments; f == g <=> printed lines equal, != its negation, equal features hash alike; the stored JSON form round-trips key order, empty lists and extra columns - each confirmed over all CrossHair paths on arbitrary characters within the length bounds.",
   note="JSON clause holds under the json contract (the simplejson module object inside gffutils.helpers is replaced by jsonbox; gffutils' own _jsonify/_unjsonify run); simplejson's text encoding of arbitrary Unicode is third-party C code outside the claim. Finite alphabets where float()/hash() concretise."),
 "C18": dict(engine="X", technique=X, design="4/C18",
   text="len(f) == end-start+1 for any start; Feature.sequence against the pyfaidx slicing contract for every sequence over ACGTN up to length 4 (thorough 5), every 1 <= start <= end, every strand/use_strand; bed12 (id or Feature argument, name present/absent, 0-2 exons anywhere in a small window, 0-1 CDS) yields the twelve fields of the statement or ValueError exactly when the ascending blocks do not begin/end at the feature's ends; convert.to_bed12 agrees on the common core.",
   note="bed12 coordinates range over a finite window (str(int) concretises); exons with equal starts and nested blocks reaching beyond the feature are outside the claim; fakefasta stands in for pyfaidx (replay uses real pyfaidx)."),
 "C07": dict(engine="X", technique=X.replace(" over pure-Python stand-ins for sqlite/files/json", " (plus a model of urllib.parse.unquote)"), design="4/C07",
   text="A writer model renders attribute columns for all 36 dialect skeletons (3 key/value styles x 3 field separators x trailing semicolon x comma-list/repeated keys) and four shapes (two attributes, a multi-valued key, a valueless flag, a single attribute) with ARBITRARY value characters chosen by the solver; the real _split_keyvals must return the written values in order and the written dialect, and the real _reconstruct must give the text back byte for byte. Line level: feature_from_line / str(Feature) with arbitrary seqid/type/strand characters, '.'/decimal coordinates, 0-2 extra columns, and the strict=False blank-separated law. Confirmed over all CrossHair paths; counterexamples replayed on the real parser.",
   note="Values: 1 arbitrary character per position in the quick tier (1-2 characters and two arbitrary values in thorough); keys from a finite \\w alphabet. Outside the grammar by the parser's documented heuristics (see DESIGN C07): leading-blank values, strip()-able ends of unquoted values, a valueless flag in FIRST position, empty coordinate columns. Trusts the unquote model and the two CrossHair patches in vlib/xh_patches.py (every counterexample is replayed on the unpatched interpreter)."),
 "C08": dict(engine="X", technique=X.replace(" over pure-Python stand-ins for sqlite/files/json", " (plus a model of urllib.parse.unquote)"), design="4/C08",
   text="(a) _split_keyvals terminates without raising and yields lists of str for EVERY Unicode string up to length 3 (thorough 4), inferred and supplied-dialect branches, partitioned over the class of the first character. (b) For every gff3-style dialect dictionary (3 separators x trailing x repeated keys x quoted = 24) and 12 GTF-style ones, printing a mapping (keys incl. '.' and '-', values arbitrary Unicode characters; restricted as stated for GTF) with _reconstruct and re-parsing with that dialect returns the same mapping, the text has no tab/line break, printing is repeatable and leaves the mapping untouched; at line level the printed Feature is one line of 9+n columns and feature_from_line gives the same columns and mapping for tab, newline, %, ;, =, &, comma, control, quote and non-ASCII values.",
   note="Length bounds as stated (longer strings outside); unquote modelled for %00-%7F only (totality asserts only type/termination); keys from a finite alphabet."),
 "C09": dict(engine="X", technique=X, design="4/C09",
   text="Per line: for all 36 skeletons the inferred dialect equals the one the writer used (fmt, both separators, quoting, trailing semicolon, repeated keys, first-seen key order) for arbitrary value characters. Vote: the real _choose_dialect on 0-3 features with all weights 0..3 and every assignment of two competing values per key equals the weighted majority with ties to the first seen, order = first-seen keys. File level: 3-line files whose lines are written in one of two dialects (incl. GTF/GFF3 mixtures) for every checklines 0..4, path and from_string: DataIterator.dialect, FeatureDB.dialect and the GFF3-vs-GTF import semantics follow the inspected window; a supplied dialect is reported verbatim.",
   note="Bounds: 3 lines / 3 voters; stand-ins fakefs, simsql, jsonbox, bins_stub, unquote model; observability assumption of the statement (>= 2 attributes per line) built into the writer."),
 "C14": dict(engine="X", technique=X, design="4/C14",
   text="Every interleaving of 3 (thorough 4) lines drawn from {directive, comment, blank, feature, ##FASTA, >header, bare ###} with every checklines value, as a path and as from_string, with and without a supplied dialect: DataIterator.directives after iteration, db.directives after import and after reopening the database equal the '##' lines before the FASTA marker in order; the number of features equals the feature lines before the marker.",
   note="Bounds: 3/4 lines, 7 line kinds; fakefs/simsql/jsonbox stand-ins (reopen = new FeatureDB over the committed simsql store); counterexamples replayed with real files and real sqlite3."),
}
NA = {}
def main():
    props = [json.loads(l) for l in open(os.path.join(HERE, "properties.jsonl"))]
    checks = []
    for p in props:
        i = p["id"]
        if i not in CHECKS: continue
        c = CHECKS[i]
        checks.append(dict(property_id=i, quick_cmd="./check %s --tier quick" % i,
            thorough_cmd="./check %s --tier thorough" % i, evidence_file="evidence/%s.json" % i,
            replay_cmd_template="./check %s --replay {path}" % i, engine=c["engine"],
            level_claimed=dict(category="other", text=c["text"], design_ref=c["design"]),
            level_note=c["note"], technique=c["technique"]))
    na = [dict(property_id=p["id"], reason=NA.get(p["id"], "check not built yet in this round (planned, see DESIGN.md section 4)"))
          for p in props if p["id"] not in CHECKS]
    m = dict(version=1, setup_cmd="./setup.sh",
        hooks=dict(guard="GFFUTILS_VERIF", enable="no source hooks are needed: checks import /repo's working tree in a fresh process and inject stand-ins into module namespaces at run time; the variable is exported by ./check and reserved", baseline_off_cmd=BASE, source_commits=[], add_only=True),
        engines=[dict(name="S", path="vlib/symx.py", serves_properties=[k for k,v in CHECKS.items() if v["engine"]=="S"], kind_free_text=S),
                 dict(name="X", path="vlib/runner.py", serves_properties=[k for k,v in CHECKS.items() if v["engine"]=="X"], kind_free_text=X)],
        checks=checks, not_applicable=na,
        notes="Exit codes: 0 held / 1 VIOLATION (replayed on the real stack) / 3 HARNESS-ERROR (inconclusive machinery failure, never a verdict). known_findings.json lists genuine defects (fixed or known).")
    json.dump(m, open(os.path.join(HERE, "MANIFEST.json"), "w"), indent=1)
    import jsonschema
    jsonschema.validate(m, json.load(open("/root/.vp/MANIFEST.schema.json")))
    print("MANIFEST ok:", len(checks), "checks,", len(na), "not applicable")
if __name__ == "__main__": main()
