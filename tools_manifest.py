#!/usr/bin/env python3
"""Regenerates MANIFEST.json from the table below (kept in one place so it always validates)."""
import json, os
HERE = os.path.dirname(os.path.abspath(__file__))
BASE = "cd /repo && /venv/bin/python -m pytest -ra -q -p no:cacheprovider --timeout=900 --continue-on-collection-errors"
S = "symbolic execution of the real functions on z3-backed proxies (own explorer) + SMT validity queries (z3)"
X = "CrossHair symbolic execution of the real functions (z3 per path) over pure-Python stand-ins for sqlite/files/json"
CHECKS = {
 "C12": dict(engine="S", technique=S, design="4/C12",
   text="Every feasible path of the real bins.bins (both fmt, both one) is enumerated by the solver and obligations O1-O8 are discharged as SMT validity queries over ALL integers: no value bound; the only loop is over the module's constant 5-level table. Counterexamples are replayed on the real function.",
   note="Trusts z3 and the ~300-line proxy explorer (vlib/symx.py); integers are mathematical (=Python int). O7 is required only when the interval whose bin set is taken is in range (see DESIGN C12)."),
}
NA = {}
def main():
    props = [json.loads(l) for l in open(os.path.join(HERE, "properties.jsonl"))]
    checks = []
    for p in props:
        i = p["id"]
        if i not in CHECKS: continue
        c = CHECKS[i]
        checks.append(dict(property_id=i, quick_cmd="./check %s --tier quick" % i,
            thorough_cmd="./check %s --tier thorough" % i, evidence_file="evidence/%s.json" % i,
            replay_cmd_template="./check %s --replay {path}" % i, engine=c["engine"],
            level_claimed=dict(category="other", text=c["text"], design_ref=c["design"]),
            level_note=c["note"], technique=c["technique"]))
    na = [dict(property_id=p["id"], reason=NA.get(p["id"], "check not built yet in this round (planned, see DESIGN.md section 4)"))
          for p in props if p["id"] not in CHECKS]
    m = dict(version=1, setup_cmd="./setup.sh",
        hooks=dict(guard="GFFUTILS_VERIF", enable="no source hooks are needed: checks import /repo's working tree in a fresh process and inject stand-ins into module namespaces at run time; the variable is exported by ./check and reserved", baseline_off_cmd=BASE, source_commits=[], add_only=True),
        engines=[dict(name="S", path="vlib/symx.py", serves_properties=[k for k,v in CHECKS.items() if v["engine"]=="S"], kind_free_text=S),
                 dict(name="X", path="vlib/runner.py", serves_properties=[k for k,v in CHECKS.items() if v["engine"]=="X"], kind_free_text=X)],
        checks=checks, not_applicable=na,
        notes="Exit codes: 0 held / 1 VIOLATION (replayed on the real stack) / 3 HARNESS-ERROR (inconclusive machinery failure, never a verdict). known_findings.json lists genuine defects (fixed or known).")
    json.dump(m, open(os.path.join(HERE, "MANIFEST.json"), "w"), indent=1)
    import jsonschema
    jsonschema.validate(m, json.load(open("/root/.vp/MANIFEST.schema.json")))
    print("MANIFEST ok:", len(checks), "checks,", len(na), "not applicable")
if __name__ == "__main__": main()
