#!/bin/bash
# Confirms every candidate seeded change in a scratch worktree of /repo's HEAD:
# patch applies, suite still 74 passed, demo FAILs with the patch and PASSes without.
# usage: tools_verify_seeds.sh <srcdir containing Cxx-out dirs> ; writes /verif/seeded/<id>-<k>/
SRC=${1:-/tmp/wt}
WT=/tmp/seedcheck.$$
git -C /repo worktree add --detach $WT HEAD >/dev/null 2>&1
for d in $SRC/C??-out; do
  id=$(basename $d | cut -c1-3)
  for k in 1 2; do
    [ -f $d/patch$k.diff ] || continue
    out=/verif/seeded/$id-$((k+${SEED_OFFSET:-0}))
    cd $WT && git checkout -q -- . && git clean -fdq
    PYTHONPATH=$WT /venv/bin/python $d/demo$k.py >/tmp/seed_demo0.$$ 2>&1; r0=$?
    if ! git apply $d/patch$k.diff 2>/tmp/seed_apply.$$; then echo "$id-$((k+${SEED_OFFSET:-0})): PATCH DOES NOT APPLY: $(head -2 /tmp/seed_apply.$$)"; continue; fi
    suite=$(PYTHONPATH=$WT /venv/bin/python -m pytest -q -p no:cacheprovider --timeout=900 --continue-on-collection-errors 2>&1 | tail -1)
    PYTHONPATH=$WT /venv/bin/python $d/demo$k.py >/tmp/seed_demo1.$$ 2>&1; r1=$?
    git checkout -q -- . && git clean -fdq
    ok=no; if [ $r0 -eq 0 ] && [ $r1 -ne 0 ] && echo "$suite" | grep -q "74 passed"; then ok=yes; fi
    echo "$id-$((k+${SEED_OFFSET:-0})): unchanged_exit=$r0 changed_exit=$r1 suite='$suite' keep=$ok"
    if [ $ok = yes ]; then
      mkdir -p $out; cp $d/patch$k.diff $out/patch.diff; cp $d/demo$k.py $out/demo.py
      /venv/bin/python - $d/meta$k.json $out/meta.json "$suite" $r0 $r1 <<'PY'
import json,sys
m=json.load(open(sys.argv[1]))
m["confirmed"]={"by":"tools_verify_seeds.sh in a scratch worktree of /repo HEAD","suite":sys.argv[3],"demo_exit_unchanged":int(sys.argv[4]),"demo_exit_with_patch":int(sys.argv[5]),
 "ran":["git apply patch.diff","pytest (baseline command) -> 74 passed","PYTHONPATH=<worktree> python demo.py with and without the patch"]}
json.dump(m,open(sys.argv[2],"w"),indent=1)
PY
    fi
  done
done
cd /; git -C /repo worktree remove --force $WT; rm -f /tmp/seed_*.$$
