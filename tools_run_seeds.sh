#!/bin/bash
# Applies each confirmed seeded change to /repo, runs the property's check, undoes the change.
# usage: tools_run_seeds.sh [tier] [seed-id ...]   (default: all of /verif/seeded/*)
TIER=${1:-quick}; shift
cd /verif
ids="$@"; [ -z "$ids" ] && ids=$(ls -d seeded/C??-? | xargs -n1 basename)
if [ -n "$(git -C /repo status --porcelain --untracked-files=no)" ]; then echo "/repo has local changes; refusing"; exit 2; fi
for s in $ids; do
  prop=${s%-*}
  [ -f vlib/props/$(echo $prop | tr A-Z a-z).py ] || { echo "$s: no check for $prop yet"; continue; }
  if ! git -C /repo apply seeded/$s/patch.diff 2>/dev/null; then
     if ! (cd /repo && patch -p1 -F3 -s < /verif/seeded/$s/patch.diff >/dev/null 2>&1); then echo "$s: patch does not apply"; git -C /repo checkout -- .; find /repo -name '*.orig' -o -name '*.rej' | xargs -r rm; continue; fi
  fi
  t0=$(date +%s)
  cp evidence/$prop.json /tmp/evidence.$prop.bak 2>/dev/null
  ./check $prop --tier $TIER > /tmp/seedrun.$s.log 2>&1; rc=$?
  t1=$(date +%s)
  cp /tmp/evidence.$prop.bak evidence/$prop.json 2>/dev/null
  git -C /repo checkout -- .; find /repo -name '*.orig' -o -name '*.rej' | xargs -r rm
  nv=$(grep -c '^VIOLATION' /tmp/seedrun.$s.log)
  echo "$s: check=$prop tier=$TIER exit=$rc violations=$nv time=$((t1-t0))s :: $(grep -m1 -A1 '^VIOLATION' /tmp/seedrun.$s.log | tail -1 | cut -c1-200) $(grep -m1 -E 'HARNESS-ERROR|INCONCLUSIVE' /tmp/seedrun.$s.log | cut -c1-160)"
done
# leave the evidence of the unchanged tree in place
