"""./check <ID> --replay <file>: re-runs a recorded counterexample on the REAL stack (real sqlite3, real files,
real json, real bins) and prints what is observed.  Exit 1 if the violation reproduces, 0 if the property holds
for that input now, 3 if the file cannot be replayed."""
import importlib


def run(mod, obj):
    kind = obj.get("kind")
    try:
        if kind == "xcall":
            from vlib.runner import replay_xcall
            verdict, text = replay_xcall(obj)
            print("replay %s: %s" % (verdict, text))
            return {"reproduced": 1, "not_reproduced": 0}.get(verdict, 3)
        if kind == "c12":
            B = importlib.import_module("gffutils.bins")
            sch = mod.Scheme(B)
            holds, text = mod.concrete_check(B, sch, obj["fmt"], obj["which"], obj["vc"], obj["model"])
            print("replay %s: %s" % ("holds" if holds else "reproduced", text))
            return 0 if holds else 1
        if kind == "c06":
            form = [f for f in mod.forms("thorough") if f.name == obj["form"]]
            if not form:
                print("unknown query form %r" % obj["form"])
                return 3
            ok, text = mod.replay(form[0], obj["model"])
            print("replay %s: %s" % ("holds" if ok else "reproduced" if ok is False else "failed", text))
            return 0 if ok else 1 if ok is False else 3
        if kind == "c11":
            sh = [s for s in mod.shapes("thorough") if s.name == obj["shape"]]
            if not sh:
                print("unknown shape %r" % obj["shape"])
                return 3
            ok, text = mod.replay(sh[0], obj.get("model", {}))
            print("replay %s: %s" % ("holds" if ok else "reproduced" if ok is False else "failed", text))
            return 0 if ok else 1 if ok is False else 3
        if kind == "c11counts":
            ok, text = mod.replay_counts(obj.get("model", {}))
            print("replay %s: %s" % ("holds" if ok else "reproduced", text))
            return 0 if ok else 1
        if kind in ("c02s",):
            ok, text = mod.replay_shapes()
            print("replay %s: %s" % ("holds" if ok else "reproduced", text))
            return 0 if ok else 1
        if kind == "c20":
            from vlib.harness import c20
            text = c20.forked_names(obj.get("trace", "").startswith("gtf"))
            print("replay %s: %s" % ("reproduced" if text else "holds", text))
            return 1 if text else 0
    except Exception as ex:
        print("HARNESS-ERROR replay failed: %s: %s" % (type(ex).__name__, ex))
        return 3
    print("HARNESS-ERROR unknown replay kind %r" % kind)
    return 3
