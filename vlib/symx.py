"""Engine S: symbolic proxies + solver-driven path exploration of *real* Python functions.

A SymInt wraps a z3 Int term.  Arithmetic builds terms; a comparison yields a SymBool whose
truth value, when Python asks for it, is decided by the explorer: both outcomes that are
satisfiable under the current path condition are explored (depth-first, by re-execution with
a recorded decision prefix).  The functions explored are the repository's own functions,
imported from the working tree; nothing is transcribed by hand.

Integers are mathematical (z3 Int) = Python int semantics.  `x >> k` is floor division by
2**k, exact for Python ints of either sign.
"""
import builtins
import time

import z3


class Unsupported(Exception):
    """The code under analysis used an operation the proxies cannot encode -> inconclusive."""


class _Abort(BaseException):
    pass


class Ctx:
    cur = None

    def __init__(self):
        self.solver = z3.Solver()
        self.pc = []
        self.decisions = []
        self.pos = 0
        self.nq = 0
        self.t_solver = 0.0

    def check(self, *extra):
        t = time.time()
        self.solver.push()
        for e in extra:
            self.solver.add(e)
        r = str(self.solver.check())
        self.solver.pop()
        self.nq += 1
        self.t_solver += time.time() - t
        return r


def _t(x):
    if isinstance(x, SymInt):
        return x.t
    if isinstance(x, bool):
        return z3.IntVal(int(x))
    if isinstance(x, int):
        return z3.IntVal(x)
    raise Unsupported("operand %r of type %s" % (x, type(x).__name__))


def _isnum(o):
    return isinstance(o, (int, SymInt))


class SymBool:
    def __init__(self, t):
        self.t = t

    def __bool__(self):
        c = Ctx.cur
        if c is None:
            raise Unsupported("SymBool evaluated outside an exploration")
        if c.pos < len(c.decisions):
            d = c.decisions[c.pos][0]
        else:
            feas = []
            for v in (True, False):
                r = c.check(self.t if v else z3.Not(self.t))
                if r == "sat":
                    feas.append(v)
                elif r != "unsat":
                    raise Unsupported("solver said %s on a branch condition" % r)
            if not feas:
                raise _Abort()
            d = feas[0]
            c.decisions.append([d, feas[1:]])
        c.pos += 1
        lit = self.t if d else z3.Not(self.t)
        c.solver.add(lit)
        c.pc.append(lit)
        return d

    def __and__(self, o):
        return SymBool(z3.And(self.t, o.t if isinstance(o, SymBool) else z3.BoolVal(bool(o))))

    def __or__(self, o):
        return SymBool(z3.Or(self.t, o.t if isinstance(o, SymBool) else z3.BoolVal(bool(o))))

    def __invert__(self):
        return SymBool(z3.Not(self.t))


def _pow2(k):
    if isinstance(k, SymInt) or not isinstance(k, int) or k < 0 or k > 4096:
        raise Unsupported("shift by a non-constant or out-of-range amount")
    return 1 << k


class SymInt:
    def __init__(self, t):
        self.t = t

    # arithmetic
    def __add__(self, o):
        return SymInt(self.t + _t(o)) if _isnum(o) else NotImplemented

    __radd__ = __add__

    def __sub__(self, o):
        return SymInt(self.t - _t(o)) if _isnum(o) else NotImplemented

    def __rsub__(self, o):
        return SymInt(_t(o) - self.t) if _isnum(o) else NotImplemented

    def __neg__(self):
        return SymInt(-self.t)

    def __pos__(self):
        return self

    def __mul__(self, o):
        if isinstance(o, SymInt):
            raise Unsupported("symbolic * symbolic")
        return SymInt(self.t * _t(o)) if _isnum(o) else NotImplemented

    __rmul__ = __mul__

    def __floordiv__(self, o):
        if isinstance(o, SymInt) or not isinstance(o, int) or o <= 0:
            raise Unsupported("floor division by a non-constant or non-positive value")
        return SymInt(self.t / o)  # z3 Int '/' is floor division for positive divisors

    def __mod__(self, o):
        if isinstance(o, SymInt) or not isinstance(o, int) or o <= 0:
            raise Unsupported("modulo by a non-constant or non-positive value")
        return SymInt(self.t % o)

    def __rshift__(self, k):
        return SymInt(self.t / _pow2(k))

    def __lshift__(self, k):
        return SymInt(self.t * _pow2(k))

    def __truediv__(self, o):
        raise Unsupported("true division produces a float")

    def __and__(self, o):
        # x & (2**k - 1)  ==  x mod 2**k   (exact for Python ints of either sign)
        if isinstance(o, int) and o >= 0 and (o + 1) & o == 0:
            return SymInt(self.t % (o + 1))
        raise Unsupported("bitwise and with a non-mask")

    __rand__ = __and__

    def __abs__(self):
        return SymInt(z3.If(self.t >= 0, self.t, -self.t))

    # comparisons
    def __ge__(self, o):
        return SymBool(self.t >= _t(o)) if _isnum(o) else NotImplemented

    def __le__(self, o):
        return SymBool(self.t <= _t(o)) if _isnum(o) else NotImplemented

    def __lt__(self, o):
        return SymBool(self.t < _t(o)) if _isnum(o) else NotImplemented

    def __gt__(self, o):
        return SymBool(self.t > _t(o)) if _isnum(o) else NotImplemented

    def __eq__(self, o):
        if _isnum(o):
            return SymBool(self.t == _t(o))
        return False

    def __ne__(self, o):
        if _isnum(o):
            return SymBool(self.t != _t(o))
        return True

    def __hash__(self):
        return id(self)

    def __bool__(self):
        return bool(SymBool(self.t != 0))

    def __index__(self):
        raise Unsupported("symbolic int used as an index / concrete int")

    # formatting into text: an atomic token that survives str operations and int()
    def __str__(self):
        return token_for(self)

    __repr__ = __str__

    def __format__(self, spec):
        if spec not in ("", "d", "s"):
            raise Unsupported("format spec %r on a symbolic int" % spec)
        return token_for(self)


# ---- tokens: a symbolic value rendered into text -------------------------------------------
# A token is TOK_OPEN + decimal id + TOK_CLOSE (private-use code points), so ordinary string
# operations of the code under analysis (format, %, join, split(':'), split('-'), strip) treat
# it as an opaque word and the SQL translator can map it back to its term.
TOK_OPEN, TOK_CLOSE = "\ue000", "\ue001"
_TOKENS = {}


def reset_tokens():
    _TOKENS.clear()


def token_for(obj):
    k = "%s%d%s" % (TOK_OPEN, len(_TOKENS), TOK_CLOSE)
    _TOKENS[k] = obj
    return k


def token_value(text):
    """The object a token text stands for, or None."""
    return _TOKENS.get(text)


def is_token(text):
    return isinstance(text, str) and text in _TOKENS


def _st(x):
    if isinstance(x, SymStr):
        return x.t
    if isinstance(x, str):
        v = _TOKENS.get(x)
        if isinstance(v, SymStr):
            return v.t
        if TOK_OPEN in x:
            raise Unsupported("text mixing symbolic tokens and literal characters")
        return z3.StringVal(x)
    raise Unsupported("string operand of type %s" % type(x).__name__)


def _unsupported(name):
    def f(self, *a, **k):
        raise Unsupported("str.%s on a symbolic string" % name)

    f.__name__ = name
    return f


class SymStr(str):
    """A symbolic string travelling through real code as an opaque token (a real `str`
    instance, so isinstance checks and embedding into larger text behave).  Every operation
    that looks at the CONTENT is either encoded (==, !=, <, truthiness, in, startswith,
    endswith -> SymBool decided by the solver) or raises Unsupported (never silently
    answered from the token text)."""

    def __new__(cls, term):
        tok = "%s%d%s" % (TOK_OPEN, len(_TOKENS), TOK_CLOSE)
        s = str.__new__(cls, tok)
        s.t = term
        _TOKENS[tok] = s
        return s

    def __eq__(self, o):
        if isinstance(o, str):
            return SymBool(self.t == _st(o))
        return False

    def __ne__(self, o):
        if isinstance(o, str):
            return SymBool(self.t != _st(o))
        return True

    def __lt__(self, o):
        return SymBool(self.t < _st(o))

    def __le__(self, o):
        return SymBool(z3.Or(self.t < _st(o), self.t == _st(o)))

    def __gt__(self, o):
        return SymBool(_st(o) < self.t)

    def __ge__(self, o):
        return SymBool(z3.Or(_st(o) < self.t, self.t == _st(o)))

    def __bool__(self):
        return bool(SymBool(z3.Length(self.t) > 0))

    def __hash__(self):
        raise Unsupported("hash of a symbolic string")

    def __contains__(self, o):
        return bool(SymBool(z3.Contains(self.t, _st(o))))

    def startswith(self, o, *a):
        if a or not isinstance(o, str):
            raise Unsupported("startswith with ranges/tuples on a symbolic string")
        return SymBool(z3.PrefixOf(_st(o), self.t))

    def endswith(self, o, *a):
        if a or not isinstance(o, str):
            raise Unsupported("endswith with ranges/tuples on a symbolic string")
        return SymBool(z3.SuffixOf(_st(o), self.t))


for _n in ("__len__", "__iter__", "__getitem__", "lower", "upper", "strip", "lstrip", "rstrip", "split", "rsplit",
           "replace", "isdigit", "isalpha", "isalnum", "isspace", "find", "index", "rfind", "count", "partition",
           "rpartition", "splitlines", "casefold", "capitalize", "title", "swapcase", "zfill", "encode", "translate",
           "isnumeric", "isdecimal", "islower", "isupper", "center", "ljust", "rjust", "expandtabs", "removeprefix",
           "removesuffix", "__add__", "__radd__", "__mul__", "__rmul__"):
    setattr(SymStr, _n, _unsupported(_n))


# ---- range / len / int shadows installed into the analysed module's globals ----------------
_ITER_STACK = []   # active MarkerSet iterations (innermost last)


class RangeMarker:
    """What iterating range(lo, hi) with symbolic bounds yields: one marker for the whole NON-EMPTY half-open
    integer interval [lo, hi).  An order comparison with a number is answered for all members at once when they
    agree; otherwise the marker is split: it keeps the members for which the comparison is true and the rest is
    handed to the enclosing MarkerSet iteration as a further element (so every member meets the right branch)."""

    def __init__(self, lo, hi):
        self.lo, self.hi = lo, hi

    def __str__(self):
        return token_for(self)

    __repr__ = __str__

    def _split(self, true_lo, true_hi, rest):
        if not _ITER_STACK:
            raise Unsupported("a symbolic range must be split outside an iteration over a symbolic set")
        frame = _ITER_STACK[-1]
        self.lo, self.hi = true_lo, true_hi
        for lo, hi in rest:
            m = RangeMarker(lo, hi)
            frame["queue"].append(m)
            set.add(frame["owner"], m)

    def _order(self, other, kind):
        if not _isnum(other):
            return NotImplemented
        x = other if isinstance(other, SymInt) else SymInt(z3.IntVal(other))
        lo = self.lo if isinstance(self.lo, SymInt) else SymInt(_t(self.lo))
        hi = self.hi if isinstance(self.hi, SymInt) else SymInt(_t(self.hi))
        # boundary b: members >= b are on one side, members < b on the other
        b = x if kind in ("ge", "lt") else x + 1
        upper_true = kind in ("ge", "gt")
        if lo >= b:          # every member is >= b
            return upper_true
        if hi <= b:          # every member is < b
            return not upper_true
        if upper_true:
            self._split(b, hi, [(lo, b)])
        else:
            self._split(lo, b, [(b, hi)])
        return True

    def __ge__(self, o):
        return self._order(o, "ge")

    def __gt__(self, o):
        return self._order(o, "gt")

    def __le__(self, o):
        return self._order(o, "le")

    def __lt__(self, o):
        return self._order(o, "lt")

    def __eq__(self, o):
        if isinstance(o, RangeMarker):
            return o is self
        if not _isnum(o):
            return False
        x = o if isinstance(o, SymInt) else SymInt(z3.IntVal(o))
        lo = self.lo if isinstance(self.lo, SymInt) else SymInt(_t(self.lo))
        hi = self.hi if isinstance(self.hi, SymInt) else SymInt(_t(self.hi))
        if x < lo:
            return False
        if x >= hi:
            return False
        if (hi - lo) == 1:
            return True
        # x is one of several members: isolate it
        self._split(x, x + 1, [(lo, x), (x + 1, hi)])
        return True

    def __ne__(self, o):
        r = self.__eq__(o)
        return (not r) if isinstance(r, bool) else r

    def __hash__(self):
        return id(self)


class MarkerSet(set):
    """`set` as seen by the analysed bins module: iteration tolerates markers being split on the way"""

    def __iter__(self):
        import collections
        frame = {"queue": collections.deque(set.__iter__(self)), "owner": self}
        _ITER_STACK.append(frame)
        try:
            while frame["queue"]:
                item = frame["queue"].popleft()
                if isinstance(item, RangeMarker):
                    lo = item.lo if isinstance(item.lo, SymInt) else SymInt(_t(item.lo))
                    if lo >= item.hi:      # empty range: no member to visit
                        continue
                yield item
        finally:
            if frame in _ITER_STACK:
                _ITER_STACK.remove(frame)


class SymRange:
    def __init__(self, lo, hi):
        self.lo, self.hi = lo, hi

    def __iter__(self):
        yield RangeMarker(self.lo, self.hi)


def sym_range(a, b=None, step=None):
    if step is None and (isinstance(a, SymInt) or isinstance(b, SymInt)):
        if b is None:
            a, b = 0, a
        return SymRange(a, b)
    if step is not None:
        return builtins.range(a, b, step)
    return builtins.range(a, b) if b is not None else builtins.range(a)


def sym_int(x, *a):
    if isinstance(x, SymInt):
        return x
    if isinstance(x, str) and not a:
        v = _TOKENS.get(x.strip())
        if isinstance(v, SymInt):
            return v
        if v is not None:
            raise Unsupported("int() of a symbolic string")
    return builtins.int(x, *a)


def marker_members(b, elems):
    """z3 formula: integer term b is a member of the collection `elems` (ints, SymInts,
    RangeMarkers)."""
    cl = []
    for x in elems:
        if isinstance(x, RangeMarker):
            cl.append(z3.And(_t(x.lo) <= b, b < _t(x.hi)))
        else:
            cl.append(b == _t(x))
    return z3.Or(cl) if cl else z3.BoolVal(False)


def sym_len(x):
    """len() of a collection that may hold RangeMarkers: the exact symbolic cardinality when the
    solver shows all pieces pairwise disjoint under the current path condition; otherwise the
    path is refined (case split) until it is, via an auxiliary fresh variable bounded soundly."""
    if isinstance(x, (list, set, tuple, frozenset)) and any(isinstance(i, RangeMarker) for i in x):
        c = Ctx.cur
        items = list(x)
        markers = [i for i in items if isinstance(i, RangeMarker)]
        singles = [i for i in items if not isinstance(i, RangeMarker)]
        # piecewise cardinality assuming disjointness
        total = z3.IntVal(0)
        for m in markers:
            w = _t(m.hi) - _t(m.lo)
            total = total + z3.If(w > 0, w, 0)
        if isinstance(x, (set, frozenset, SetList)):
            # explicit elements inside some marker or equal to an earlier explicit element are
            # not counted twice
            for idx, s in enumerate(singles):
                inside = z3.Or([z3.And(_t(m.lo) <= _t(s), _t(s) < _t(m.hi)) for m in markers] +
                               [_t(s) == _t(p) for p in singles[:idx] if not (isinstance(p, int) and isinstance(s, int))])
                total = total + z3.If(inside, 0, 1)
            # markers must be pairwise disjoint for the sum to be exact
            overl = []
            for i in range(len(markers)):
                for j in range(i + 1, len(markers)):
                    a, b = markers[i], markers[j]
                    overl.append(z3.And(_t(a.lo) < _t(a.hi), _t(b.lo) < _t(b.hi),
                                        _t(a.lo) < _t(b.hi), _t(b.lo) < _t(a.hi)))
            if overl and c is not None:
                r = c.check(z3.Or(overl))
                if r != "unsat":
                    raise Unsupported("cannot show symbolic ranges pairwise disjoint (%s)" % r)
        else:
            total = total + len(singles)
        return SymInt(total)
    return builtins.len(x)


class SetList(list):
    """list(<set holding RangeMarkers>): remembers that its members are pairwise distinct"""


def sym_list(x=()):
    if isinstance(x, (set, frozenset)) and any(isinstance(i, RangeMarker) for i in x):
        return SetList(set.__iter__(x))
    return builtins.list(x)


def install(module, names=("int", "range", "len")):
    """Shadow builtins in the globals of a module of the code under analysis."""
    m = {"int": sym_int, "range": sym_range, "len": sym_len, "list": sym_list, "set": MarkerSet}
    for n in names:
        setattr(module, n, m[n])


def uninstall(module, names=("int", "range", "len")):
    for n in names:
        if n in module.__dict__:
            delattr(module, n)


# ---- explorer ------------------------------------------------------------------------------
class Path:
    def __init__(self, pc, result, exc):
        self.pc, self.result, self.exc = pc, result, exc


def explore(fn, mk_args, assume=None, max_paths=20000):
    """All feasible paths of fn(*mk_args()).  Returns (paths, stats)."""
    decisions = []
    paths = []
    nq = 0
    ts = 0.0
    while True:
        c = Ctx()
        c.decisions = decisions
        Ctx.cur = c
        args = mk_args()
        if assume is not None:
            a = assume(*args)
            c.solver.add(a)
            c.pc.append(a)
        try:
            try:
                r = fn(*args)
                paths.append(Path(list(c.pc), r, None))
            except _Abort:
                pass
            except Unsupported:
                raise
            except Exception as ex:  # the code under analysis raised on this path
                paths.append(Path(list(c.pc), None, ex))
        finally:
            Ctx.cur = None
            nq += c.nq
            ts += c.t_solver
        while decisions and not decisions[-1][1]:
            decisions.pop()
        if not decisions:
            break
        d = decisions[-1]
        d[0] = d[1].pop(0)
        if len(paths) > max_paths:
            raise Unsupported("more than %d paths" % max_paths)
    return paths, dict(queries=nq, solver_s=ts)


def pc_formula(pc):
    return z3.And(pc) if pc else z3.BoolVal(True)


def ite_summary(paths, value, default):
    """Folds explored paths into one term: If(pc1, v1, If(pc2, v2, ... default))."""
    out = default
    for p in reversed(paths):
        out = z3.If(pc_formula(p.pc), value(p), out)
    return out


class VC:
    """A verification condition: `formula` must be valid.  decide() checks the negation."""

    def __init__(self, name, formula, vars=()):
        self.name, self.formula, self.vars = name, formula, list(vars)
        self.result = None
        self.model = None
        self.time = 0.0

    def decide(self, timeout_ms=60000):
        s = z3.Solver()
        s.set("timeout", timeout_ms)
        s.add(z3.Not(self.formula))
        t = time.time()
        r = str(s.check())
        self.time = time.time() - t
        self.result = {"unsat": "valid", "sat": "counterexample"}.get(r, "unknown")
        if r == "sat":
            m = s.model()
            self.model = {}
            for v in self.vars:
                val = m.eval(v, model_completion=True)
                try:
                    self.model[str(v)] = val.as_long()
                except Exception:
                    try:
                        self.model[str(v)] = val.as_string()
                    except Exception:
                        self.model[str(v)] = str(val)
        return self.result

    def smt2(self):
        s = z3.Solver()
        s.add(z3.Not(self.formula))
        return s.to_smt2()

    def cross_check(self, timeout_s=60):
        """re-decides the query with independent solver builds (/usr/bin/z3 4.8.12, cvc5 binary) from its
        SMT-LIB2 text.  -> dict solver -> 'unsat'|'sat'|'unknown'|'error'.  Any '(error' in the output is an error."""
        import os
        import subprocess
        import tempfile
        text = "(set-logic ALL)\n" + self.smt2()
        out = {}
        fd, path = tempfile.mkstemp(suffix=".smt2", prefix="verif-vc-")
        try:
            with os.fdopen(fd, "w") as f:
                f.write(text)
            for name, cmd in (("z3-4.8.12", ["/usr/bin/z3", "-T:%d" % timeout_s, path]),
                              ("cvc5", ["cvc5", "--tlimit=%d" % (timeout_s * 1000), path])):
                try:
                    p = subprocess.run(cmd, capture_output=True, text=True, timeout=timeout_s + 10)
                    o = (p.stdout + p.stderr).strip()
                    if "(error" in o or "rror" in o.split("\n")[0][:40]:
                        out[name] = "error"
                    else:
                        first = o.split("\n")[0].strip() if o else "unknown"
                        out[name] = first if first in ("sat", "unsat", "unknown") else "unknown"
                except Exception:
                    out[name] = "unknown"
        finally:
            os.unlink(path)
        return out
