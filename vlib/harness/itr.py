"""Iterator-level harnesses: C09 (vote, file-level dialect, routing), C13 (input forms, peeking, transform,
inspect) and C14 (directives).  Files live in the fakefs stand-in; databases in simsql."""
from typing import List

import gffutils
from gffutils import constants, helpers, inspect as ginspect, iterators
from gffutils.feature import Feature, feature_from_line

from vlib import env, hx, simsql

if hx.SYMBOLIC:
    env.install_simsql()
    env.install_jsonbox()
    env.install_fakefs()
    env.install_bins_stub()
    env.install_nocache_quoter()
    env.install_quiet_stderr()

_SCRATCH = [0]


def _reset():
    if hx.SYMBOLIC:
        simsql.reset()
        env.FS.reset()


def _write(text, name="in.gff"):
    """-> path of a file holding `text`"""
    if hx.SYMBOLIC:
        p = "/fake/" + name
        env.FS.files[p] = text
        return p
    import os
    _SCRATCH[0] += 1
    p = os.path.join(os.environ.get("VERIF_SCRATCH", "."), "%d_%s" % (_SCRATCH[0], name))
    with open(p, "w") as f:
        f.write(text)
    return p


def _dbpath(name="out.db"):
    if hx.SYMBOLIC:
        _SCRATCH[0] += 1
        return "/fake/%d_%s" % (_SCRATCH[0], name)
    import os
    _SCRATCH[0] += 1
    return os.path.join(os.environ.get("VERIF_SCRATCH", "."), "%d_%s" % (_SCRATCH[0], name))


def _dialect(**kw):
    d = dict(constants.dialect)
    d.update(kw)
    return d


# =============================================================================================
# C09: weighted vote
# =============================================================================================
class _Stub:
    def __init__(self, keys, dialect):
        self.attributes = {k: ["v"] for k in keys}
        self.dialect = dialect


POOL = (("ID", "a", "b"), ("a", "c", "ID"), ("d", "b", "ID"))


def _ref_vote(stubs):
    """the statement: per dialect key the value with the largest total weight (weight = number of attributes),
    ties to the value seen first; order = first-seen attribute keys"""
    if not stubs:
        return dict(constants.dialect)
    out = {}
    for key in constants.dialect:
        tally = []
        for s in stubs:
            v = s.dialect[key]
            v = tuple(v) if isinstance(v, list) else v
            for t in tally:
                if t[0] == v:
                    t[1] += len(s.attributes)
                    break
            else:
                tally.append([v, len(s.attributes)])
        best = tally[0]
        for t in tally[1:]:
            if t[1] > best[1]:
                best = t
        out[key] = best[0]
    order = []
    for s in stubs:
        for k in s.attributes:
            if k not in order:
                order.append(k)
    out["order"] = order
    return out


def _check_vote(n, w, sepb, trailb, fmtb):
    hx.tick()
    stubs = []
    for i in range(n):
        d = _dialect(**{"field separator": "; " if sepb[i] else ";", "trailing semicolon": bool(trailb[i]),
                        "fmt": "gtf" if fmtb[i] else "gff3", "order": list(POOL[i][:w[i]])})
        stubs.append(_Stub(POOL[i][:w[i]], d))
    got = helpers._choose_dialect(stubs)
    exp = _ref_vote(stubs)
    for k in exp:
        if got[k] != exp[k]:
            return hx.msg("chosen %s = %r, weighted majority (ties to first seen) says %r", k, got[k], exp[k])
    return None


VKEY = hx.sel("VB_VKEY", "")     # partition: which dialect key varies between the features (others agree)
VN = hx.bound("VB_VN", -1)       # partition: number of features
VW0 = hx.bound("VB_VW0", -1)     # partition: weight of the first feature


def _vote_ok(n, w, sepb, trailb, fmtb):
    if VN >= 0 and n != VN:
        return False
    for name, lst in (("sep", sepb), ("trail", trailb), ("fmt", fmtb)):
        if VKEY and name != VKEY and any(lst):
            return False
    return 0 <= n <= 3 and len(w) == 3 and len(sepb) == 3 and len(trailb) == 3 and len(fmtb) == 3 and all(0 <= x <= 3 for x in w)


def _vote_args(w0, w1, w2, b0, b1, b2):
    z = [False, False, False]
    b = [b0, b1, b2]
    return [w0, w1, w2], (b if VKEY in ("", "sep") else z), (b if VKEY == "trail" else z), (b if VKEY == "fmt" else z)


def cond_vote(n: int, w0: int, w1: int, w2: int, b0: bool, b1: bool, b2: bool) -> bool:
    """
    pre: 0 <= n <= 3 and (VN < 0 or n == VN) and 0 <= w0 <= 3 and 0 <= w1 <= 3 and 0 <= w2 <= 3 and (VW0 < 0 or w0 == VW0)
    post: _
    """
    return _check_vote(n, *_vote_args(w0, w1, w2, b0, b1, b2)) is None


def reach_vote(n: int, w0: int, w1: int, w2: int, b0: bool, b1: bool, b2: bool) -> bool:
    """
    pre: 0 <= n <= 3 and (VN < 0 or n == VN) and 0 <= w0 <= 3 and 0 <= w1 <= 3 and 0 <= w2 <= 3 and (VW0 < 0 or w0 == VW0)
    post: not _
    """
    if _check_vote(n, *_vote_args(w0, w1, w2, b0, b1, b2)) is not None:
        return False
    return n < 3 or (w0 == 1 and w1 == 1 and w2 == 3 and b0 and not b1 and not b2)


def diag_vote(n, w0, w1, w2, b0, b1, b2):
    return _check_vote(n, *_vote_args(w0, w1, w2, b0, b1, b2))


# =============================================================================================
# C09: file level - DataIterator.dialect, FeatureDB.dialect, routing, explicit dialect
# =============================================================================================
_GTF_D = dict(fmt="gtf", **{"field separator": "; ", "keyval separator": " ", "quoted GFF2 values": True,
                            "trailing semicolon": True})
PAIRS = {
    "0": (('ID=x%d;a=y', 2, dict(fmt="gff3"), ["ID", "a"]),
          ('ID=x%d; a=y; b=z;', 3, {"fmt": "gff3", "field separator": "; ", "trailing semicolon": True}, ["ID", "a", "b"])),
    "1": (('gene_id "g"; transcript_id "t%d";', 2, _GTF_D, ["gene_id", "transcript_id"]),
          ('ID=x%d;a=y;b=z', 3, dict(fmt="gff3"), ["ID", "a", "b"])),
    "2": (('gene_id "g"; transcript_id "t%d"; n "1";', 3, _GTF_D, ["gene_id", "transcript_id", "n"]),
          ('ID=x%d;a=y', 2, dict(fmt="gff3"), ["ID", "a"])),
    "3": (('ID=x%d;a=y', 2, dict(fmt="gff3"), ["ID", "a"]),
          ('gene_id "g"; transcript_id "t%d";', 2, _GTF_D, ["gene_id", "transcript_id"])),
}
PAIR = hx.sel("VB_PAIR", "0")
NL = hx.bound("VB_NL", 3)


def _file_lines(sel):
    lines, stubs = [], []
    for i in range(NL):
        tmpl, nattr, dd, keys = PAIRS[PAIR][1 if sel[i] else 0]
        lines.append("chr1\tsrc\texon\t%d\t%d\t.\t+\t.\t%s" % (10 * i + 1, 10 * i + 5, tmpl % i))
        stubs.append(_Stub(keys, _dialect(order=list(keys), **dd)))
    return lines, stubs


def _check_file(sel, checklines, from_string):
    hx.tick()
    _reset()
    lines, stubs = _file_lines(sel)
    text = "\n".join(lines) + "\n"
    window = stubs[:checklines + 1]
    exp = _ref_vote(window)
    if from_string:
        it = gffutils.DataIterator(text, checklines=checklines, from_string=True)
    else:
        it = gffutils.DataIterator(_write(text), checklines=checklines)
    for k in exp:
        if it.dialect[k] != exp[k]:
            return hx.msg("DataIterator.dialect[%s] = %r, the inspected window says %r", k, it.dialect[k], exp[k])
    feats = list(it)
    if len(feats) != NL or any(f.dialect[k] != exp[k] for f in feats for k in ("fmt", "field separator")):
        return "yielded features do not carry the chosen dialect"
    # database: same dialect reported, and the format decides the import semantics
    db = gffutils.create_db(_write(text, "in2.gff"), _dbpath(), checklines=checklines, merge_strategy="create_unique")
    for k in exp:
        v = db.dialect[k]
        if (tuple(v) if isinstance(v, list) else v) != (tuple(exp[k]) if isinstance(exp[k], list) else exp[k]):
            return hx.msg("FeatureDB.dialect[%s] = %r, expected %r", k, v, exp[k])
    types = sorted(f.featuretype for f in db.all_features())
    derived = [t for t in types if t in ("gene", "transcript")]
    if exp["fmt"] == "gtf":
        if not derived:
            return "GTF dialect but no inferred gene/transcript features (GFF3 import semantics were applied)"
    elif derived:
        return "GFF3 dialect but gene/transcript features were inferred (GTF import semantics were applied)"
    return None


FCL = hx.bound("VB_FCL", -1)     # partition: checklines


def _file_ok(sel, checklines):
    if FCL >= 0 and checklines != FCL:
        return False
    return len(sel) == NL and 0 <= checklines <= NL + 1


def cond_file(s0: bool, s1: bool, s2: bool, checklines: int, from_string: bool) -> bool:
    """
    pre: _file_ok([s0, s1, s2], checklines)
    post: _
    """
    return _check_file([s0, s1, s2], checklines, from_string) is None


def reach_file(s0: bool, s1: bool, s2: bool, checklines: int, from_string: bool) -> bool:
    """
    pre: _file_ok([s0, s1, s2], checklines)
    post: not _
    """
    return _check_file([s0, s1, s2], checklines, from_string) is None and (checklines != 1 or s0 != s1)


def diag_file(s0, s1, s2, checklines, from_string):
    return _check_file([s0, s1, s2], checklines, from_string)


def _check_explicit(sel, checklines):
    """an explicitly supplied dialect is used verbatim (no inspection)"""
    hx.tick()
    _reset()
    lines, stubs = _file_lines(sel)
    text = "\n".join(lines) + "\n"
    D = _dialect(**{"field separator": " ; ", "order": ["zz"]})
    it = gffutils.DataIterator(_write(text), checklines=checklines, dialect=D)
    if it.dialect != D:
        return "supplied dialect not reported verbatim by DataIterator"
    feats = list(it)
    if any(f.dialect != D for f in feats):
        return "features do not carry the supplied dialect"
    db = gffutils.create_db(_write(text, "in2.gff"), _dbpath(), checklines=checklines, dialect=D, merge_strategy="create_unique")
    got = dict(db.dialect)
    if got != D:
        return hx.msg("FeatureDB.dialect %r differs from the supplied %r", got, D)
    return None


def cond_explicit(s0: bool, s1: bool, s2: bool, checklines: int) -> bool:
    """
    pre: _file_ok([s0, s1, s2], checklines)
    post: _
    """
    return _check_explicit([s0, s1, s2], checklines) is None


def reach_explicit(s0: bool, s1: bool, s2: bool, checklines: int) -> bool:
    """
    pre: _file_ok([s0, s1, s2], checklines)
    post: not _
    """
    return _check_explicit([s0, s1, s2], checklines) is None and s0 and checklines == 0


def diag_explicit(s0, s1, s2, checklines):
    return _check_explicit([s0, s1, s2], checklines)


# =============================================================================================
# C14: directives
# =============================================================================================
KINDS = ("##d%d", "#c%d", "", "chr1\t.\tgene\t%d\t9\t.\t+\t.\tID=g%d;Name=n", "##FASTA", ">hdr%d", "###")
NK = hx.bound("VB_NK", 3)
K0 = hx.bound("VB_K0", -1)     # partition: kind of the first line
DIALECT_GIVEN = hx.sel("VB_DGIVEN", "0") == "1"


def _mk_line(k, i):
    s = KINDS[k]
    return s % ((i + 1,) * s.count("%d")) if "%d" in s else s


def _expected(lines):
    dirs, nfeat = [], 0
    for l in lines:
        if l == "##FASTA" or l.startswith(">"):
            break
        if l.startswith("##"):
            dirs.append(l[2:])
        elif l.startswith("#") or l == "":
            pass
        else:
            nfeat += 1
    return dirs, nfeat


def _check_directives(kinds, checklines, from_string, do_db):
    hx.tick()
    _reset()
    lines = [_mk_line(k, i) for i, k in enumerate(kinds)]
    text = "\n".join(lines) + "\n"
    exp_dir, exp_feat = _expected(lines)
    kw = dict(checklines=checklines)
    if DIALECT_GIVEN:
        kw["dialect"] = constants.dialect
    if from_string:
        it = gffutils.DataIterator(text, from_string=True, **kw)
    else:
        it = gffutils.DataIterator(_write(text), **kw)
    feats = list(it)
    if list(it.directives) != exp_dir:
        return hx.msg("DataIterator.directives %r, file has %r", it.directives, exp_dir)
    if len(feats) != exp_feat:
        return hx.msg("%d features iterated, file has %d", len(feats), exp_feat)
    if not do_db or exp_feat == 0:
        return None
    path = _dbpath()
    if from_string:
        db = gffutils.create_db(text, path, from_string=True, **kw)
    else:
        db = gffutils.create_db(_write(text, "in2.gff"), path, **kw)
    if list(db.directives) != exp_dir:
        return hx.msg("db.directives %r after import, file has %r", db.directives, exp_dir)
    if db.count_features_of_type() != exp_feat:
        return "number of stored features differs from the feature lines before the FASTA section"
    db2 = gffutils.FeatureDB(path)
    if list(db2.directives) != exp_dir:
        return hx.msg("db.directives %r after reopening, file has %r", db2.directives, exp_dir)
    return None


FS_ONLY = hx.bound("VB_FS", -1)  # partition: from_string


def _dir_ok(kinds, checklines, from_string=False):
    if len(kinds) != NK or not (0 <= checklines <= NK):
        return False
    if any(not (0 <= k < len(KINDS)) for k in kinds):
        return False
    if FS_ONLY >= 0 and from_string != bool(FS_ONLY):
        return False
    return K0 < 0 or kinds[0] == K0


def cond_directives(k0: int, k1: int, k2: int, k3: int, checklines: int, from_string: bool) -> bool:
    """
    pre: _dir_ok([k0, k1, k2, k3][:NK], checklines, from_string) and all(k == 0 for k in [k0, k1, k2, k3][NK:])
    post: _
    """
    return _check_directives([k0, k1, k2, k3][:NK], checklines, from_string, True) is None


def reach_directives(k0: int, k1: int, k2: int, k3: int, checklines: int, from_string: bool) -> bool:
    """
    pre: _dir_ok([k0, k1, k2, k3][:NK], checklines, from_string) and all(k == 0 for k in [k0, k1, k2, k3][NK:])
    post: not _
    """
    kinds = [k0, k1, k2, k3][:NK]
    return _check_directives(kinds, checklines, from_string, True) is None and 3 in kinds and 0 in kinds


def diag_directives(k0, k1, k2, k3, checklines, from_string):
    return _check_directives([k0, k1, k2, k3][:NK], checklines, from_string, True)


# =============================================================================================
# C13: peeking never consumes; transform; input forms; inspect
# =============================================================================================
def _feat(i):
    return feature_from_line("chr1\tsrc\tgene\t%d\t%d\t.\t+\t.\tID=g%d;Name=n%d" % (10 * i + 1, 10 * i + 5, i, i))


SRC = hx.sel("VB_SRC", "gen")     # gen: one-shot generator | iter: iter(list) | list


def _source(feats):
    if SRC == "gen":
        return (f for f in feats)
    if SRC == "iter":
        return iter(feats)
    return list(feats)


def _check_peek(n, checklines, given_dialect):
    hx.tick()
    feats = [_feat(i) for i in range(n)]
    kw = dict(checklines=checklines)
    if given_dialect:
        kw["dialect"] = constants.dialect
    it = gffutils.DataIterator(_source(feats), **kw)
    got = list(it)
    if len(got) != n:
        return hx.msg("%d items iterated, %d supplied", len(got), n)
    for a, b in zip(got, feats):
        if a is not b:
            return "items dropped, duplicated or reordered by the dialect peek"
    return None


def cond_peek(n: int, checklines: int, given_dialect: bool) -> bool:
    """
    pre: 0 <= n <= 4 and 0 <= checklines <= n + 2
    post: _
    """
    return _check_peek(n, checklines, given_dialect) is None


def reach_peek(n: int, checklines: int, given_dialect: bool) -> bool:
    """
    pre: 0 <= n <= 4 and 0 <= checklines <= n + 2
    post: not _
    """
    return _check_peek(n, checklines, given_dialect) is None and n == 3 and checklines == 0 and not given_dialect


def diag_peek(n, checklines, given_dialect):
    return _check_peek(n, checklines, given_dialect)


FALSY = (None, False, 0, "", [], ())


def _check_transform(n, mask, kind, checklines, via_file):
    """transform applied exactly once per feature; falsy return <=> skipped"""
    hx.tick()
    _reset()
    feats = [_feat(i) for i in range(n)]
    calls = []

    def transform(f):
        idx = int(f.attributes["ID"][0][1:])
        calls.append(idx)
        if mask[idx]:
            return FALSY[kind]
        f.attributes["seen"] = ["y"]
        return f

    if via_file:
        text = "".join(str(f) + "\n" for f in feats)
        it = gffutils.DataIterator(_write(text), checklines=checklines, transform=transform)
    else:
        it = gffutils.DataIterator(_source(feats), checklines=checklines, transform=transform)
    got = list(it)
    exp = [i for i in range(n) if not mask[i]]
    if [int(f.attributes["ID"][0][1:]) for f in got] != exp:
        return hx.msg("yielded %r, the transform kept %r", [f.attributes["ID"][0] for f in got], exp)
    if any(list(f.attributes["seen"]) != ["y"] for f in got):
        return "a yielded feature is not the transform's return value"
    if sorted(calls) != list(range(n)):
        return hx.msg("transform calls %r: not exactly once per feature", calls)
    return None


def _tr_ok(n, m0, m1, m2, kind, checklines):
    return 0 <= n <= 3 and 0 <= kind < len(FALSY) and 0 <= checklines <= n + 1


def cond_transform(n: int, m0: bool, m1: bool, m2: bool, kind: int, checklines: int, via_file: bool) -> bool:
    """
    pre: _tr_ok(n, m0, m1, m2, kind, checklines)
    post: _
    """
    return _check_transform(n, [m0, m1, m2], kind, checklines, via_file) is None


def reach_transform(n: int, m0: bool, m1: bool, m2: bool, kind: int, checklines: int, via_file: bool) -> bool:
    """
    pre: _tr_ok(n, m0, m1, m2, kind, checklines)
    post: not _
    """
    return _check_transform(n, [m0, m1, m2], kind, checklines, via_file) is None and n == 3 and m1 and not m0 and kind == 2


def diag_transform(n, m0, m1, m2, kind, checklines, via_file):
    return _check_transform(n, [m0, m1, m2], kind, checklines, via_file)


# ---- input forms ---------------------------------------------------------------------------------
FKINDS = ("chr1\tsrc\tgene\t%d\t%d\t.\t+\t.\tID=g%d;Name=n", "chr1\tsrc\tmRNA\t%d\t%d\t.\t+\t.\tID=m%d;Parent=g0", "#comment %d %d %d")
FORMS = ("path", "gz", "string", "list", "generator", "DataIterator", "FeatureDB")
NF = hx.bound("VB_NF", 2)


def _db_view(db):
    rel = sorted((r[0], r[1], r[2]) for r in db.conn.execute("SELECT parent, child, level FROM relations ORDER BY parent, child, level"))
    return [str(f) for f in db.all_features()], [f.id for f in db.all_features()], rel


def _check_forms(kinds, checklines):
    hx.tick()
    _reset()
    lines = [FKINDS[k] % (10 * i + 1, 10 * i + 5, i) for i, k in enumerate(kinds)]
    flines = [l for l in lines if not l.startswith("#")]
    text = "\n".join(lines) + "\n"
    if not flines:
        return None
    ref_feats = [feature_from_line(l) for l in flines]
    ref_db = None
    for form in FORMS:
        def data():
            if form == "path":
                return dict(data=_write(text, "f.gff"))
            if form == "gz":
                return dict(data=_write_gz(text))
            if form == "string":
                return dict(data=text, from_string=True)
            if form == "list":
                return dict(data=[feature_from_line(l) for l in flines])
            if form == "generator":
                return dict(data=(feature_from_line(l) for l in flines))
            if form == "DataIterator":
                return dict(data=gffutils.DataIterator(_write(text, "g.gff"), checklines=checklines))
            base = gffutils.create_db(_write(text, "h.gff"), _dbpath("base.db"), checklines=checklines, keep_order=True)
            return dict(data=base)
        got = [str(f) for f in gffutils.DataIterator(checklines=checklines, **data())]
        if got != flines:
            return hx.msg("form %s iterates %r, the annotation is %r", form, got, flines)
        db = gffutils.create_db(dbfn=_dbpath("out_%s.db" % form), checklines=checklines, keep_order=True, **data())
        view = _db_view(db)
        if view[0] != flines:
            return hx.msg("database from form %s holds %r, the annotation is %r", form, view[0], flines)
        if ref_db is None:
            ref_db = view
        elif view != ref_db:
            return hx.msg("database from form %s differs from the one built from a path: %r vs %r", form, view, ref_db)
    return None


def _write_gz(text):
    if hx.SYMBOLIC:
        return _write(text, "f.gff.gz")
    import gzip
    import os
    _SCRATCH[0] += 1
    p = os.path.join(os.environ.get("VERIF_SCRATCH", "."), "%d_f.gff.gz" % _SCRATCH[0])
    with gzip.open(p, "wt") as f:
        f.write(text)
    return p


def _forms_ok(k0, k1, k2, checklines):
    ks = [k0, k1, k2]
    return all(0 <= k <= 2 for k in ks[:NF]) and all(k == 0 for k in ks[NF:]) and 0 <= checklines <= NF + 1 and (FCL < 0 or checklines == FCL)


def cond_forms(k0: int, k1: int, k2: int, checklines: int) -> bool:
    """
    pre: _forms_ok(k0, k1, k2, checklines)
    post: _
    """
    return _check_forms([k0, k1, k2][:NF], checklines) is None


def reach_forms(k0: int, k1: int, k2: int, checklines: int) -> bool:
    """
    pre: _forms_ok(k0, k1, k2, checklines)
    post: not _
    """
    return _check_forms([k0, k1, k2][:NF], checklines) is None and k0 == 0 and k1 == 1


def diag_forms(k0, k1, k2, checklines):
    return _check_forms([k0, k1, k2][:NF], checklines)


# ---- inspect ------------------------------------------------------------------------------------------
LOOK = hx.sel("VB_LOOK", "featuretype,chrom,attribute_keys,feature_count").split(",")


def _check_inspect(kinds, limit, as_file):
    hx.tick()
    _reset()
    lines = [FKINDS[k] % (10 * i + 1, 10 * i + 5, i) for i, k in enumerate(kinds)]
    flines = [l for l in lines if not l.startswith("#")]
    feats = [feature_from_line(l) for l in flines]
    data = _write("\n".join(lines) + "\n", "i.gff") if as_file else (f for f in feats)
    res = ginspect.inspect(data, look_for=list(LOOK), limit=limit, verbose=False)
    seen = feats[:limit] if limit else feats
    if res["feature_count"] != len(seen):
        return hx.msg("feature_count %r, %d features were iterated", res["feature_count"], len(seen))
    if "featuretype" in LOOK:
        exp = {}
        for f in seen:
            exp[f.featuretype] = exp.get(f.featuretype, 0) + 1
        if res["featuretype"] != exp:
            return hx.msg("featuretype counts %r, expected %r", res["featuretype"], exp)
    if "chrom" in LOOK and res["chrom"] != ({"chr1": len(seen)} if seen else {}):
        return "chrom counts wrong"
    if "attribute_keys" in LOOK:
        exp = {}
        for f in seen:
            for k in f.attributes.keys():
                exp[k] = exp.get(k, 0) + 1
        if res["attribute_keys"] != exp:
            return hx.msg("attribute_keys counts %r, expected %r", res["attribute_keys"], exp)
    return None


def cond_inspect(k0: int, k1: int, k2: int, limit: int, as_file: bool) -> bool:
    """
    pre: all(0 <= k <= 2 for k in (k0, k1, k2)) and 0 <= limit <= 4
    post: _
    """
    return _check_inspect([k0, k1, k2], limit, as_file) is None


def reach_inspect(k0: int, k1: int, k2: int, limit: int, as_file: bool) -> bool:
    """
    pre: all(0 <= k <= 2 for k in (k0, k1, k2)) and 0 <= limit <= 4
    post: not _
    """
    return _check_inspect([k0, k1, k2], limit, as_file) is None and limit == 2 and k0 == 0 and k1 == 1 and k2 == 0


def diag_inspect(k0, k1, k2, limit, as_file):
    return _check_inspect([k0, k1, k2], limit, as_file)
