"""C10 harness: histories of update / delete / add_relation / reopen against a reference model; ids never recycle;
.bak holds the pre-operation database even when the operation fails part-way."""
import gffutils
from gffutils import constants
from gffutils.feature import Feature

from vlib import env, hx, simsql

if hx.SYMBOLIC:
    env.install_simsql()
    env.install_jsonbox()
    env.install_fakefs()
    env.install_bins_stub()
    env.install_nocache_quoter()
    env.install_quiet_stderr()

STRATEGY = hx.sel("VB_STRATEGY", "create_unique")
DEPTH = hx.bound("VB_DEPTH", 2)
K1 = hx.sel("VB_K1", "")          # partition: kind of the first step
K2 = hx.sel("VB_K2", "")          # partition: kind of the second step
INIT = hx.sel("VB_INIT", "auto")   # auto: the initial exon has no ID (key exon_1, counter in use) | explicit: every initial feature has an ID
B1 = hx.bound("VB_B1", -1)
A1 = hx.bound("VB_A1", -1)        # partition: first operand selector of the first step
KINDS = ("update", "delete", "relate", "reopen", "failing_update")
UP_IDS = (None, "n1", "exon_1")
UP_PARS = (None, "m", "zz")      # "zz" names no stored feature (dangling Parent)
DEL_IDS = ("m", "exon_1" if hx.sel("VB_INIT", "auto") == "auto" else "e1", "zz")
REL = (("g", "n1", 1), ("m", "n1", 1), ("g", "n1", 2), ("g", "g2", 1), ("g2", "m", 1), ("m", "g2", 2))
_N = [0]


def _path(name):
    _N[0] += 1
    if hx.SYMBOLIC:
        return "/fake/%d_%s" % (_N[0], name)
    import os
    return os.path.join(os.environ.get("VERIF_SCRATCH", "."), "%d_%s" % (_N[0], name))


def _content(path):
    if hx.SYMBOLIC:
        return simsql.snapshot(simsql.STORES[path])
    import sqlite3
    c = sqlite3.connect(path)
    out = []
    for t in ("features", "relations", "meta", "directives", "autoincrements", "duplicates"):
        out.append((t, [list(r) for r in c.execute("SELECT rowid, * FROM %s ORDER BY rowid" % t)]))
    c.close()
    return out


def _initial():
    return [Feature(seqid="c", source="s", featuretype="gene", start=1, end=90, strand="+", attributes={"ID": ["g"]}),
            Feature(seqid="c", source="s", featuretype="gene", start=100, end=190, strand="+", attributes={"ID": ["g2"]}),
            Feature(seqid="c", source="s", featuretype="mRNA", start=2, end=80, strand="+", attributes={"ID": ["m"], "Parent": ["g"]}),
            Feature(seqid="c", source="s", featuretype="exon", start=3, end=9, strand="+",
                    attributes={"ID": ["e1"], "Parent": ["m"]} if INIT == "explicit" else {"Parent": ["m"]})]


class Model:
    def __init__(self):
        self.feats = []          # (id, printed line)
        self.rel = []            # (parent, child, level)
        self.counters = {}
        self.handed_out = []
        self.origin = {}

    def ids(self):
        return [f[0] for f in self.feats]

    def _auto(self, base):
        while True:
            self.counters[base] = self.counters.get(base, 0) + 1
            k = "%s_%d" % (base, self.counters[base])
            if STRATEGY not in ("create_unique", "merge") or k not in self.ids() or base == "exon":
                return k

    def _add_rel(self, r):
        if r not in self.rel:
            self.rel.append(r)

    def add(self, f):
        """one feature arriving through create_db / update (GFF3 semantics, id_spec='ID')"""
        if "ID" in f.attributes and f.attributes["ID"]:
            key = f.attributes["ID"][0]
        else:
            key = self._auto(f.featuretype)
            self.handed_out.append(key)
        line = str(f)
        target = key
        if key in self.ids():
            if STRATEGY == "error":
                raise ValueError("duplicate")
            if STRATEGY == "warning":
                return
            if STRATEGY == "replace":
                self.feats = [(i, l) if i != key else (i, line) for i, l in self.feats]
                self.rel = [r for r in self.rel if r[1] != key]
            elif STRATEGY == "merge" and self._merge_into(key, f) is not None:
                target = self._merge_into(key, f)
                old = _sig([l for i, l in self.feats if i == target][0])
                attrs = {k: list(v) for k, v in old[4]}
                for k, v in _sig(line)[4]:
                    cur = attrs.setdefault(k, [])
                    for x in v:
                        if x not in cur:
                            cur.append(x)
                merged = old[:4] + (sorted((k, sorted(v)) for k, v in attrs.items()),)
                self.feats = [(i, l) if i != target else (i, merged) for i, l in self.feats]
            else:       # create_unique, or merge without a column-compatible candidate
                target = self._auto(key)
                self.handed_out.append(target)
                self.origin[target] = key
                self.feats.append((target, line))
        else:
            self.feats.append((key, line))
        for p in (f.attributes["Parent"] if "Parent" in f.attributes else []):
            self._add_rel((p, target, 1))

    def _merge_into(self, key, f):
        """id of the stored feature (same requested key) whose columns agree with f; its attributes already hold
        f's values in these histories (the same update feature arriving again)"""
        cols = _sig(str(f))[:4]
        for i, l in self.feats:
            if (i == key or self.origin.get(i) == key) and _sig(l)[:4] == cols:
                return i
        return None

    def close_level2(self):
        """after an import pass: level 2 = composition of two level-1 edges (for the whole database)"""
        l1 = [r for r in self.rel if r[2] == 1]
        for a in l1:
            for b in l1:
                if a[1] == b[0]:
                    self._add_rel((a[0], b[1], 2))

    def delete(self, i):
        self.feats = [f for f in self.feats if f[0] != i]
        self.rel = [r for r in self.rel if r[0] != i and r[1] != i]


def _mk_update(idsel, parsel):
    attrs = {}
    if UP_IDS[idsel]:
        attrs["ID"] = [UP_IDS[idsel]]
    if UP_PARS[parsel]:
        attrs["Parent"] = [UP_PARS[parsel]]
    attrs["note"] = ["u"]
    return Feature(seqid="c", source="upd", featuretype="exon", start=20, end=30, strand="+", attributes=attrs, dialect=constants.dialect)


def _observe(db):
    feats = [(f.id, str(f)) for f in db.all_features()]
    rel = sorted(tuple(r) for r in db.conn.execute("SELECT parent, child, level FROM relations ORDER BY parent, child, level"))
    return feats, rel


def _compare(db, model, when):
    feats, rel = _observe(db)
    if [f[0] for f in feats] != model.ids():
        return hx.msg("%s: keys %r, model has %r", when, [f[0] for f in feats], model.ids())
    for (i, line), (j, mline) in zip(feats, model.feats):
        f = db[i]
        if (f.source, f.featuretype, f.start, f.end, sorted((k, sorted(v)) for k, v in f.attributes.items())) != _sig(mline):
            return hx.msg("%s: feature %r is %r, model has %r", when, i, line, mline)
    if rel != sorted(model.rel):
        return hx.msg("%s: relations %r, model has %r", when, rel, sorted(model.rel))
    return None


def _sig(line):
    if isinstance(line, tuple):
        return line
    from gffutils.feature import feature_from_line
    f = feature_from_line(line)
    return (f.source, f.featuretype, f.start, f.end, sorted((k, sorted(v)) for k, v in f.attributes.items()))


def _check(steps):
    """steps: list of (kind, a, b) with kind in KINDS and a, b operand selectors"""
    hx.tick()
    if hx.SYMBOLIC:
        simsql.reset()
        env.FS.reset()
    path = _path("h.db")
    db = gffutils.create_db(_initial(), path, dialect=constants.dialect, checklines=0, keep_order=True)
    model = Model()
    for f in _initial():
        model.add(f)
    model.close_level2()
    m = _compare(db, model, "after create_db")
    if m:
        return m
    for n, (kind, a, b) in enumerate(steps):
        when = "after step %d (%s)" % (n + 1, kind)
        if kind == "update":
            f = _mk_update(a % len(UP_IDS), b % len(UP_PARS))
            before = _content(path)
            try:
                model.add(f)
                model_raises = False
            except ValueError:
                model_raises = True
            try:
                db.update([f], merge_strategy=STRATEGY, make_backup=True)
                raised = False
            except ValueError:
                raised = True
            if raised != model_raises:
                return hx.msg("%s: update raised=%r, model says %r", when, raised, model_raises)
            if _content(path + ".bak") != before:
                return hx.msg("%s: the .bak file is not the pre-operation database", when)
            if raised:
                return None   # the operation failed: only the backup is specified from here on
            model.close_level2()
        elif kind == "delete":
            i = DEL_IDS[a % len(DEL_IDS)]
            before = _content(path)
            db.delete(i, make_backup=True)
            if _content(path + ".bak") != before:
                return hx.msg("%s: the .bak file is not the pre-operation database", when)
            model.delete(i)
        elif kind == "relate":
            p, c, lvl = REL[(a * 2 + b) % len(REL)]
            if p not in model.ids() or c not in model.ids() or (p, c, lvl) in model.rel:
                continue          # add_relation needs both features and a new triple; other cases are not part of the statement
            db.add_relation(p, c, lvl)
            model._add_rel((p, c, lvl))
        elif kind == "reopen":
            db = gffutils.FeatureDB(path, keep_order=True)
        elif kind == "failing_update":
            # the feature source fails after `a` features: the .bak copy must hold the complete pre-operation database
            before = _content(path)

            def source():
                for i in range(a):
                    yield _mk_update(i % len(UP_IDS), b % len(UP_PARS))
                raise RuntimeError("source failed")

            try:
                db.update(source(), merge_strategy=STRATEGY, make_backup=True)
                return hx.msg("%s: the failure of the feature source was swallowed", when)
            except RuntimeError:
                pass
            if _content(path + ".bak") != before:
                return hx.msg("%s: the .bak file is not the pre-operation database", when)
            return None       # what the live database holds after a failed operation is not specified
        m = _compare(db, model, when)
        if m:
            return m
    # after a final reopen the content is the same and counters continue
    db2 = gffutils.FeatureDB(path, keep_order=True)
    m = _compare(db2, model, "after the final reopen")
    if m:
        return m
    nxt = "exon_%d" % (model.counters.get("exon", 0) + 1)
    if nxt in model.ids() and STRATEGY in ("replace", "warning", "error"):
        # the next generated key coincides with an id the USER supplied explicitly (ID=exon_1): that is a key
        # collision of the input, resolved as merge_strategy says (C05), not a recycled generated key
        return None
    probe = Feature(seqid="c", source="upd", featuretype="exon", start=40, end=41, strand="+", attributes={"note": ["p"]},
                    dialect=constants.dialect)
    try:
        db2.update([probe], merge_strategy=STRATEGY, make_backup=False)
    except ValueError:
        return "an ID-less feature could not be added after the history (generated key collided)"
    new = [f.id for f in db2.all_features() if f.id not in model.ids()]
    if len(new) != 1:
        return hx.msg("probe update added keys %r", new)
    if new[0] in model.handed_out:
        return hx.msg("auto-generated key %r had been handed out before (%r)", new[0], model.handed_out)
    return None


def _ok(k1, a1, b1, k2, a2, b2):
    if not (0 <= k1 <= 4 and 0 <= k2 <= 4 and 0 <= a1 <= 2 and 0 <= b1 <= 2 and 0 <= a2 <= 2 and 0 <= b2 <= 2):
        return False
    if K1 and KINDS[k1] != K1:
        return False
    if A1 >= 0 and a1 != A1:
        return False
    if B1 >= 0 and b1 != B1:
        return False
    if K2 and KINDS[k2] != K2:
        return False
    for k, a, b in ((k1, a1, b1), (k2, a2, b2)):
        if KINDS[k] in ("delete",) and b != 0:
            return False
        if KINDS[k] == "relate" and b > 1:
            return False
        if KINDS[k] == "reopen" and (a != 0 or b != 0):
            return False
    if KINDS[k1] == "failing_update" and (k2 != 3 or a2 != 0 or b2 != 0):
        return False       # a failed operation ends the history
    return True


def cond_history(k1: int, a1: int, b1: int, k2: int, a2: int, b2: int) -> bool:
    """
    pre: _ok(k1, a1, b1, k2, a2, b2)
    post: _
    """
    return _check([(KINDS[k1], a1, b1), (KINDS[k2], a2, b2)][:DEPTH]) is None


def reach_history(k1: int, a1: int, b1: int, k2: int, a2: int, b2: int) -> bool:
    """
    pre: _ok(k1, a1, b1, k2, a2, b2)
    post: not _
    """
    return _check([(KINDS[k1], a1, b1), (KINDS[k2], a2, b2)][:DEPTH]) is None


def diag_history(k1, a1, b1, k2, a2, b2):
    return _check([(KINDS[k1], a1, b1), (KINDS[k2], a2, b2)][:DEPTH])
