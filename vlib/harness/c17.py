"""C17 harness: Attributes container, merge_attributes, Feature equality/hash, JSON storage form."""
from typing import List

from gffutils import constants, helpers
from gffutils.attributes import Attributes
from gffutils.feature import Feature, feature_from_line

from vlib import env, hx

JSON = hx.sel("VB_JSON", "box")   # box: the simplejson call is replaced by the jsonbox contract (C boundary)
if hx.SYMBOLIC and JSON == "box":
    env.install_jsonbox()
if hx.SYMBOLIC:
    env.install_bins_stub()
    env.install_nocache_quoter()


# ---- (a) values are always sequences, however they were set -------------------------------------
def _check_wrap(v, vs, via, as_tuple):
    hx.tick()
    f = feature_from_line("c\t.\tt\t1\t2\t.\t+\t.\tk0=z")   # "features obtained by parsing"
    val = v if via < 3 else (tuple(vs) if as_tuple else list(vs))
    if via % 3 == 0:
        f.attributes["k"] = val
    elif via % 3 == 1:
        f["k"] = val
    else:
        f.attributes.update({"k": val})
    orig = constants.always_return_list
    try:
        constants.always_return_list = True
        got = f.attributes["k"]
        if isinstance(got, str) or not isinstance(got, (list, tuple)):
            return "value is not a sequence"
        exp = [v] if via < 3 else list(vs)
        if list(got) != exp:
            return hx.msg("stored %r, expected %r", got, exp)
        if list(f["k"]) != exp:
            return "Feature[k] differs from Feature.attributes[k]"
        constants.always_return_list = False
        view = f.attributes["k"]
        if len(exp) == 1 and isinstance(got, list):
            if view != exp[0]:
                return hx.msg("always_return_list=False view of a one-item list is %r", view)
        elif list(view) != exp:
            return hx.msg("always_return_list=False changed a %d-item value", len(exp))
        constants.always_return_list = True
        if list(f.attributes["k"]) != exp:
            return "switching always_return_list changed the stored value"
        if list(f.attributes["k0"]) != ["z"]:
            return "unrelated key changed"
    finally:
        constants.always_return_list = orig
    return None


def cond_wrap(v: str, vs: List[str], via: int, as_tuple: bool) -> bool:
    """
    pre: len(v) <= 2 and len(vs) <= 2 and all(len(x) <= 1 for x in vs) and 0 <= via <= 5
    post: _
    """
    return _check_wrap(v, vs, via, as_tuple) is None


def reach_wrap(v: str, vs: List[str], via: int, as_tuple: bool) -> bool:
    """
    pre: len(v) <= 2 and len(vs) <= 2 and all(len(x) <= 1 for x in vs) and 0 <= via <= 5
    post: not _
    """
    return _check_wrap(v, vs, via, as_tuple) is None and via == 4 and len(vs) == 1


def diag_wrap(v, vs, via, as_tuple):
    return _check_wrap(v, vs, via, as_tuple)


# ---- (b) merge_attributes -------------------------------------------------------------------------
NUMS = ("1", "10", "2", "2.0", "x")
A0 = hx.sel("VB_A0", "10")


def _union(vals, numeric):
    u = []
    for v in vals:
        if not any(v == w for w in u):
            u.append(v)
    if numeric:
        try:
            return [b for _, b in sorted((float(v), v) for v in u)]
        except ValueError:
            pass
    return sorted(u)


def _check_merge(a0, a1, b0, c0, numeric, wrap):
    """d1 = {k:[a0,a1], j:[c0]}, d2 = {k:[b0], m:[c0]}"""
    hx.tick()
    d1 = {"k": [a0, a1], "j": [c0]}
    d2 = {"k": [b0], "m": [c0]}
    if wrap:
        d1, d2 = Attributes(d1), Attributes(d2)
    s1 = [(k, list(d1[k])) for k in d1.keys()]
    s2 = [(k, list(d2[k])) for k in d2.keys()]
    r = helpers.merge_attributes(d1, d2, numeric_sort=numeric)
    got = sorted((k, list(r[k])) for k in r.keys())
    exp = sorted([("k", _union([a0, a1, b0], numeric)), ("j", [c0]), ("m", [c0])])
    if got != exp:
        return hx.msg("merge_attributes gave %r, statement says %r", got, exp)
    if [(k, list(d1[k])) for k in d1.keys()] != s1 or [(k, list(d2[k])) for k in d2.keys()] != s2:
        return "an argument was modified"
    return None


def cond_merge(a0: str, a1: str, b0: str, c0: str, wrap: bool) -> bool:
    """
    pre: len(a0) <= 1 and len(a1) <= 1 and len(b0) <= 1 and len(c0) <= 1
    post: _
    """
    return _check_merge(a0, a1, b0, c0, False, wrap) is None


def reach_merge(a0: str, a1: str, b0: str, c0: str, wrap: bool) -> bool:
    """
    pre: len(a0) <= 1 and len(a1) <= 1 and len(b0) <= 1 and len(c0) <= 1
    post: not _
    """
    return _check_merge(a0, a1, b0, c0, False, wrap) is None and a0 == b0 and a1 < a0


def diag_merge(a0, a1, b0, c0, wrap):
    return _check_merge(a0, a1, b0, c0, False, wrap)


def cond_merge_num(a0: str, a1: str, b0: str, numeric: bool) -> bool:
    """
    pre: a0 == A0 and a1 in NUMS and b0 in NUMS
    post: _
    """
    return _check_merge(hx.pick(a0, NUMS), hx.pick(a1, NUMS), hx.pick(b0, NUMS), "c", numeric, False) is None


def reach_merge_num(a0: str, a1: str, b0: str, numeric: bool) -> bool:
    """
    pre: a0 == A0 and a1 in NUMS and b0 in NUMS
    post: not _
    """
    return _check_merge(hx.pick(a0, NUMS), hx.pick(a1, NUMS), hx.pick(b0, NUMS), "c", numeric, False) is None and numeric and a1 == "2"


def diag_merge_num(a0, a1, b0, numeric):
    return _check_merge(a0, a1, b0, "c", numeric, False)


HSEQ, HVAL = ("a", "b"), ("p", "%", ";")


# ---- (c) equality and hash -------------------------------------------------------------------------
def _mkf(seqid, start, val, fid, extra):
    return Feature(seqid=seqid, source="s", featuretype="t", start=start, end=start + 3, strand="+", bin=0,
                   attributes={"k": [val]}, id=fid or None, extra=[extra] if extra else [])


def _check_eq(sq1, sq2, st1, st2, v1, v2, id1, id2, x1, x2, do_hash):
    hx.tick()
    f, g = _mkf(sq1, st1, v1, id1, x1), _mkf(sq2, st2, v2, id2, x2)
    same = str(f) == str(g)
    if (f == g) != same:
        return hx.msg("f == g is %r but printed lines equal is %r", f == g, same)
    if (f != g) == same:
        return hx.msg("f != g is %r but printed lines equal is %r", f != g, same)
    if same and do_hash and hash(f) != hash(g):
        return "equal features hash differently"
    return None


def cond_eq(sq1: str, sq2: str, v1: str, same_val: bool, same_start: bool, ids: int) -> bool:
    """
    pre: len(sq1) <= 1 and len(sq2) <= 1 and v1 in HVAL and 0 <= ids <= 2
    post: _
    """
    v1 = hx.pick(v1, HVAL)
    v2 = v1 if same_val else "q"
    return _check_eq(sq1, sq2, 5, 5 if same_start else 6, v1, v2, ["", "a", "a"][ids], ["", "a", "b"][ids], "", "", False) is None


def reach_eq(sq1: str, sq2: str, v1: str, same_val: bool, same_start: bool, ids: int) -> bool:
    """
    pre: len(sq1) <= 1 and len(sq2) <= 1 and v1 in HVAL and 0 <= ids <= 2
    post: not _
    """
    v1 = hx.pick(v1, HVAL)
    v2 = v1 if same_val else "q"
    return _check_eq(sq1, sq2, 5, 5 if same_start else 6, v1, v2, ["", "a", "a"][ids], ["", "a", "b"][ids], "", "", False) is None \
        and same_start and sq1 == sq2 and v1 == v2 and ids == 2


def diag_eq(sq1, sq2, v1, same_val, same_start, ids):
    v2 = v1 if same_val else "q"
    return _check_eq(sq1, sq2, 5, 5 if same_start else 6, v1, v2, ["", "a", "a"][ids], ["", "a", "b"][ids], "", "", True)


def cond_eq_extra(x1: str, x2: str, v1: str) -> bool:
    """
    pre: len(x1) <= 1 and len(x2) <= 1 and len(v1) <= 1
    post: _
    """
    return _check_eq("c", "c", 5, 5, v1, v1, "a", "b", x1, x2, False) is None


def reach_eq_extra(x1: str, x2: str, v1: str) -> bool:
    """
    pre: len(x1) <= 1 and len(x2) <= 1 and len(v1) <= 1
    post: not _
    """
    return _check_eq("c", "c", 5, 5, v1, v1, "a", "b", x1, x2, False) is None and x1 == x2 and x1 != ""


def diag_eq_extra(x1, x2, v1):
    return _check_eq("c", "c", 5, 5, v1, v1, "a", "b", x1, x2, True)




def cond_hash(sq1: str, sq2: str, v1: str, v2: str, ids: int) -> bool:
    """
    pre: sq1 in HSEQ and sq2 in HSEQ and v1 in HVAL and v2 in HVAL and 0 <= ids <= 2
    post: _
    """
    return _check_eq(hx.pick(sq1, HSEQ), hx.pick(sq2, HSEQ), 5, 5, hx.pick(v1, HVAL), hx.pick(v2, HVAL),
                     ["", "a", "a"][ids], ["", "a", "b"][ids], "", "", True) is None


def reach_hash(sq1: str, sq2: str, v1: str, v2: str, ids: int) -> bool:
    """
    pre: sq1 in HSEQ and sq2 in HSEQ and v1 in HVAL and v2 in HVAL and 0 <= ids <= 2
    post: not _
    """
    return _check_eq(hx.pick(sq1, HSEQ), hx.pick(sq2, HSEQ), 5, 5, hx.pick(v1, HVAL), hx.pick(v2, HVAL),
                     ["", "a", "a"][ids], ["", "a", "b"][ids], "", "", True) is None and sq1 == sq2 and v1 == v2 and ids == 2


def diag_hash(sq1, sq2, v1, v2, ids):
    return _check_eq(sq1, sq2, 5, 5, v1, v2, ["", "a", "a"][ids], ["", "a", "b"][ids], "", "", True)


# ---- (d) stored JSON form ------------------------------------------------------------------------------
def _check_json(k1, k2, v1, v2, v3):
    hx.tick()
    a = Attributes()
    a[k1] = [v1, v2]
    a[k2] = [v3]
    a["empty"] = []
    text = helpers._jsonify(a)
    if not isinstance(text, str):
        return "JSON form is not text"
    b = helpers._unjsonify(text, isattributes=True)
    if not isinstance(b, Attributes):
        return "un-JSONified attributes are not an Attributes mapping"
    if [(k, list(b[k])) for k in b.keys()] != [(k, list(a[k])) for k in a.keys()]:
        return hx.msg("JSON round trip changed %r into %r", a._d, b._d)
    f = Feature(seqid="c", start=1, end=2, bin=0, attributes=text)
    if [(k, list(f.attributes[k])) for k in f.attributes.keys()] != [(k, list(a[k])) for k in a.keys()]:
        return "Feature(attributes=<stored text>) differs"
    ex = helpers._unjsonify(helpers._jsonify([v1, v3]))
    if ex != [v1, v3]:
        return "extra columns changed in the JSON round trip"
    return None


def _json_ok(k1, k2, v1, v2, v3):
    return len(k1) == 1 and len(k2) == 1 and k1 != k2 and k1 != "e" and k2 != "e" and len(v1) <= 2 and len(v2) <= 1 and len(v3) <= 1


def cond_json(k1: str, k2: str, v1: str, v2: str, v3: str) -> bool:
    """
    pre: _json_ok(k1, k2, v1, v2, v3)
    post: _
    """
    return _check_json(k1, k2, v1, v2, v3) is None


def reach_json(k1: str, k2: str, v1: str, v2: str, v3: str) -> bool:
    """
    pre: _json_ok(k1, k2, v1, v2, v3)
    post: not _
    """
    return _check_json(k1, k2, v1, v2, v3) is None and k2 < k1 and len(v1) == 2


def diag_json(k1, k2, v1, v2, v3):
    return _check_json(k1, k2, v1, v2, v3)
