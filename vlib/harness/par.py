"""Parser harnesses shared by C07 (line round trip), C08 (lossless values / totality) and C09 (dialect inference).

A *writer model* renders an attribute column from (dialect skeleton, keys, values); the real
parser._split_keyvals / parser._reconstruct / feature.feature_from_line / Feature.__str__ are then run on it.
The skeleton is fixed per condition through environment variables (finite configuration, enumerated outside
CrossHair); keys come from a finite word alphabet (parser._reconstruct hashes them), values are ARBITRARY
characters decided by the solver."""
from gffutils import constants, feature, helpers, parser
from gffutils.attributes import Attributes

from vlib import env, hx

if hx.SYMBOLIC:
    env.install_unquote_model()
    env.install_nocache_quoter()
    env.install_bins_stub()

FMT = hx.sel("VB_FMT", "gff3")            # gff3: k=v | gtf: k "v" | gff2: k v
SEP = {"0": ";", "1": "; ", "2": " ; "}[hx.sel("VB_SEP", "0")]
TRAIL = hx.sel("VB_TRAIL", "0") == "1"
REP = hx.sel("VB_REP", "0") == "1"        # multi-valued keys written as repeated keys (else comma list)
QUOTED = hx.sel("VB_QUOTED", "0") == "1"  # C08: gff3-style dialect with "quoted GFF2 values"
SHAPE = hx.sel("VB_SHAPE", "two")         # two | multi | flag | one | three
VLEN = hx.bound("VB_VLEN", 1)
KEYS = ("ID", "a", "B_2", "Parent")
KEYS8 = ("ID", "a.b", "c-d", "B_2")       # C08: word-like keys incl. '.' and '-' (supplied dialect only)
W = ("w", "%", ",")                        # finite alphabet of the auxiliary value

RESERVED = "\n\t\r%;=&," + "".join(chr(i) for i in range(32)) + chr(127)


def skeleton_dialect(order):
    d = dict(constants.dialect)
    d["leading semicolon"] = False
    d["trailing semicolon"] = TRAIL
    d["quoted GFF2 values"] = (FMT == "gtf") or QUOTED
    d["field separator"] = SEP
    d["keyval separator"] = "=" if FMT == "gff3" else " "
    d["multival separator"] = ","
    d["fmt"] = "gtf" if FMT == "gtf" else "gff3"
    d["repeated keys"] = REP
    d["order"] = list(order)
    return d


def esc(v):
    """gff3 writer: reserved characters percent-encoded, upper-case hex"""
    out = ""
    for c in v:
        if c in RESERVED:
            o = ord(c)
            out += "%" + "0123456789ABCDEF"[o // 16] + "0123456789ABCDEF"[o % 16]
        else:
            out += c
    return out


# characters str.strip() removes (unquoted space-separated values lose them at their ends)
_WS = "\x1c\x1d\x1e\x1f \x85\xa0\u1680\u2000\u2001\u2002\u2003\u2004\u2005\u2006\u2007\u2008\u2009\u200a\u2028\u2029\u202f\u205f\u3000"


def value_ok(v):
    """which value strings the grammar of the skeleton's format can carry (see DESIGN.md C07 for the reasons)"""
    if not (1 <= len(v) <= VLEN):
        return False
    if v[0] == " " or v[-1] == " ":
        # a comma-list item with a leading blank is read as free text (issue #198 heuristic); leading blanks are
        # also stripped from unquoted values; a value ENDING in a blank written before the separator '; ' produces
        # the text of the ' ; ' style (the same bytes are a consistent line of another dialect)
        return False
    if FMT in ("gff3", "gff2"):
        if not QUOTED and v[0] == '"' and v[-1] == '"':
            return False       # would read as a quoted GFF2 value
        if FMT == "gff2" and (v[0] in _WS or v[-1] in _WS):
            return False       # unquoted space-separated values are strip()ped
        return True
    for c in v:               # GTF: no escaping exists
        if c in ';",' or c < " " or c == chr(127):
            return False
    return True


def render_value(vals):
    vs = [esc(v) for v in vals] if FMT in ("gff3", "gff2") else list(vals)
    body = ",".join(vs)
    if FMT == "gtf" or QUOTED:
        body = '"' + body + '"'
    return body


def render(items):
    """items: list of (key, [values]) ; [] = valueless flag"""
    kv = "=" if FMT == "gff3" else " "
    parts = []
    for k, vals in items:
        if not vals:
            parts.append(k + ' ""' if FMT == "gtf" else k)   # GTF has no bare flags: the empty value is written ""
        elif REP and len(vals) > 1:
            for v in vals:
                parts.append(k + kv + render_value([v]))
        else:
            parts.append(k + kv + render_value(vals))
    return SEP.join(parts) + (";" if TRAIL else "")


def build_items(k1, k2, v1, v2, w):
    if SHAPE == "two":
        return [(k1, [v1]), (k2, [v2])]
    if SHAPE == "multi":
        return [(k1, [v1, w]), (k2, [v2])]
    if SHAPE == "flag":
        return [(k1, [v1]), (k2, [])]
    if SHAPE == "one":
        return [(k1, [v1])]
    if SHAPE == "three":
        return [(k1, [v1]), (k2, [v2, w]), ("zz", [w])]
    raise AssertionError(SHAPE)


def _items_of(q):
    return [(k, list(q[k])) for k in q.keys()]


# ---------------------------------------------------------------------------------------------
# C07 / C09: infer -> decoded values + dialect -> reconstruct == text
# ---------------------------------------------------------------------------------------------
def fixlen(v):
    """same characters, concrete length (a symbolic length makes every slice/find in the parser fork)"""
    out = ""
    for c in v:
        out += c
    return out


def _check_roundtrip(k1, k2, v1, v2, w):
    hx.tick()
    v1, v2 = fixlen(v1), fixlen(v2)
    items = build_items(k1, k2, v1, v2, w)
    a = render(items)
    q, d = parser._split_keyvals(a)
    got = _items_of(q)
    if got != items:
        return hx.msg("decoded %r from %r, written %r", got, a, items)
    exp = skeleton_dialect([k for k, _ in items])
    observable_sep = len(items) > 1 or (REP and any(len(v) > 1 for _, v in items))
    for key in ("fmt", "keyval separator", "quoted GFF2 values", "trailing semicolon", "multival separator",
                "leading semicolon"):
        if d[key] != exp[key]:
            return hx.msg("inferred %s = %r, written with %r (text %r)", key, d[key], exp[key], a)
    # first-seen key order (a per-line dialect lists a repeated key once per occurrence; what it STATES is the
    # order of first occurrences)
    seen = []
    for k in d["order"]:
        if k not in seen:
            seen.append(k)
    if seen != exp["order"]:
        return hx.msg("inferred key order %r, written %r", d["order"], exp["order"])
    if observable_sep and d["field separator"] != exp["field separator"]:
        return hx.msg("inferred field separator %r, written with %r", d["field separator"], exp["field separator"])
    if REP and any(len(v) > 1 for _, v in items) and not d["repeated keys"]:
        return "repeated keys not inferred"
    if not REP and d["repeated keys"]:
        return "repeated keys inferred for a comma-list file"
    if helpers.infer_dialect(a) != d:
        return "helpers.infer_dialect differs from _split_keyvals"
    r = parser._reconstruct(q, d, keep_order=True)
    if r != a:
        return hx.msg("reconstructed %r from %r", r, a)
    return None


FIXKEYS = hx.sel("VB_FIXKEYS", "0") == "1"     # 1: keys and the auxiliary value are fixed (only the two values are symbolic)


def _rt_ok(k1, k2, v1, v2, w):
    if FIXKEYS and not (k1 == KEYS[0] and k2 == KEYS[1] and w == W[0]):
        return False
    return k1 in KEYS and k2 in KEYS and k1 != k2 and value_ok(v1) and value_ok(v2) and w in W and value_ok(w)


def cond_roundtrip(k1: str, k2: str, v1: str, v2: str, w: str) -> bool:
    """
    pre: _rt_ok(k1, k2, v1, v2, w)
    post: _
    """
    return _check_roundtrip(hx.pick(k1, KEYS), hx.pick(k2, KEYS), v1, v2, hx.pick(w, W)) is None


def reach_roundtrip(k1: str, k2: str, v1: str, v2: str, w: str) -> bool:
    """
    pre: _rt_ok(k1, k2, v1, v2, w)
    post: not _
    """
    return _check_roundtrip(hx.pick(k1, KEYS), hx.pick(k2, KEYS), v1, v2, hx.pick(w, W)) is None and (FIXKEYS or k1 == "Parent") and v1 > "z"


def diag_roundtrip(k1, k2, v1, v2, w):
    return _check_roundtrip(k1, k2, v1, v2, w)


# one arbitrary value, everything else fixed (cheap; used in the quick tier for every skeleton)
def cond_roundtrip1(v1: str) -> bool:
    """
    pre: value_ok(v1)
    post: _
    """
    return _check_roundtrip("ID", "a", v1, "x", "w") is None


def reach_roundtrip1(v1: str) -> bool:
    """
    pre: value_ok(v1)
    post: not _
    """
    return _check_roundtrip("ID", "a", v1, "x", "w") is None and v1 > "z"


def diag_roundtrip1(v1):
    return _check_roundtrip("ID", "a", v1, "x", "w")


def dbg_roundtrip1(v1: str) -> bool:
    """
    pre: value_ok(v1)
    post: _
    """
    m = _check_roundtrip("ID", "a", v1, "x", "w")
    if m is not None:
        raise ValueError(m)
    return True


# ---------------------------------------------------------------------------------------------
# C07 line level: feature_from_line / str(Feature) with symbolic columns
# ---------------------------------------------------------------------------------------------
COORDS = (".", "1", "25", "1000000")
ATTRS = ("", "flag", "ID=7", "ID=a;n=b,c", 'gene_id "g"; transcript_id "t";', "k v ; j w")
_BREAKS = "\n\r\t\x0b\x0c\x1c\x1d\x1e\x85  "


def _col_ok(c):
    return len(c) == 1 and c not in _BREAKS and c not in _WS


def _line_ok(c1, c2, c3, c6, c7, c8, s, e, attr, x1, x2, nx):
    if not all(_col_ok(c) for c in (c1, c2, c3, c6, c7, c8)):
        return False
    if s not in COORDS or e not in COORDS or attr not in ATTRS or not (0 <= nx <= 2):
        return False
    for x in (x1, x2):
        if len(x) > 1 or any(ch in "\n\r\t" for ch in x):
            return False
    return True


def _check_line(c1, c2, c3, c6, c7, c8, s, e, attr, x1, x2, nx):
    hx.tick()
    extras = [x1, x2][:nx]
    if extras and extras[-1] == "":
        extras = extras[:-1] if nx == 1 else extras   # a trailing empty extra column cannot be told from none... keep inner ones
    cols = [c1, c2, c3, s, e, c6, c7, c8, attr]
    line = "\t".join(cols + extras)
    f = feature.feature_from_line(line, keep_order=True)
    got = [f.seqid, f.source, f.featuretype, f.score, f.strand, f.frame]
    if got != [c1, c2, c3, c6, c7, c8]:
        return hx.msg("columns %r from line %r", got, line)
    if f.start != (None if s == "." else int(s)) or f.end != (None if e == "." else int(e)):
        return hx.msg("coordinates %r,%r from %r,%r", f.start, f.end, s, e)
    if list(f.extra) != extras:
        return hx.msg("extra %r, written %r", f.extra, extras)
    if str(f) != line:
        return hx.msg("printed %r, read %r", str(f), line)
    if LOOSE and not extras and attr != "":
        g = feature.feature_from_line(" ".join(cols), strict=False, keep_order=True)
        if not (g == f) or str(g) != str(f) or _items_of(g.attributes) != _items_of(f.attributes):
            return hx.msg("strict=False parse of the blank-separated rendering differs: %r vs %r", str(g), str(f))
    return None


LOOSE = hx.sel("VB_LOOSE", "0") == "1"   # also check the strict=False law (expensive: split(None) on symbolic text)
LINE_S, LINE_E, LINE_A = hx.sel("VB_LS", ""), hx.sel("VB_LE", ""), hx.bound("VB_LA", -1)


def _line3_ok(c1, c3, c7, s, e, attr, x1, nx):
    if (LINE_S and s != LINE_S) or (LINE_E and e != LINE_E) or (LINE_A >= 0 and attr != ATTRS[LINE_A]):
        return False
    return _col_ok(c1) and _col_ok(c3) and _col_ok(c7) and s in COORDS and e in COORDS and attr in ATTRS \
        and 0 <= nx <= 2 and len(x1) <= 1 and x1 != "\t" and x1 != "\n" and x1 != "\r"


def cond_line(c1: str, c3: str, c7: str, s: str, e: str, attr: str, x1: str, nx: int) -> bool:
    """
    pre: _line3_ok(c1, c3, c7, s, e, attr, x1, nx)
    post: _
    """
    return _check_line(c1, "src", c3, ".", c7, "0", hx.pick(s, COORDS), hx.pick(e, COORDS), hx.pick(attr, ATTRS), x1, "q", nx) is None


def reach_line(c1: str, c3: str, c7: str, s: str, e: str, attr: str, x1: str, nx: int) -> bool:
    """
    pre: _line3_ok(c1, c3, c7, s, e, attr, x1, nx)
    post: not _
    """
    return _check_line(c1, "src", c3, ".", c7, "0", hx.pick(s, COORDS), hx.pick(e, COORDS), hx.pick(attr, ATTRS), x1, "q", nx) is None \
        and nx == 2 and x1 != "" and s == "."


def cond_line1(c1: str, s: str, e: str, attr: str, x1: str, nx: int) -> bool:
    """
    pre: _line3_ok(c1, "t", "+", s, e, attr, x1, nx)
    post: _
    """
    return _check_line(c1, "src", "t", ".", "+", "0", hx.pick(s, COORDS), hx.pick(e, COORDS), hx.pick(attr, ATTRS), x1, "q", nx) is None


def reach_line1(c1: str, s: str, e: str, attr: str, x1: str, nx: int) -> bool:
    """
    pre: _line3_ok(c1, "t", "+", s, e, attr, x1, nx)
    post: not _
    """
    return _check_line(c1, "src", "t", ".", "+", "0", hx.pick(s, COORDS), hx.pick(e, COORDS), hx.pick(attr, ATTRS), x1, "q", nx) is None \
        and nx == 2 and x1 != ""


def diag_line1(c1, s, e, attr, x1, nx):
    return _check_line(c1, "src", "t", ".", "+", "0", s, e, attr, x1, "q", nx)


def cond_loose(c1: str, attr: str) -> bool:
    """
    pre: _col_ok(c1) and attr in ATTRS and attr != "" and (LINE_A < 0 or attr == ATTRS[LINE_A])
    post: _
    """
    return _check_line(c1, "src", "t", ".", "+", "0", "1", "25", hx.pick(attr, ATTRS), "", "", 0) is None


def reach_loose(c1: str, attr: str) -> bool:
    """
    pre: _col_ok(c1) and attr in ATTRS and attr != "" and (LINE_A < 0 or attr == ATTRS[LINE_A])
    post: not _
    """
    return _check_line(c1, "src", "t", ".", "+", "0", "1", "25", hx.pick(attr, ATTRS), "", "", 0) is None


def diag_loose(c1, attr):
    return _check_line(c1, "src", "t", ".", "+", "0", "1", "25", attr, "", "", 0)


def diag_line(c1, c3, c7, s, e, attr, x1, nx):
    return _check_line(c1, "src", c3, ".", c7, "0", s, e, attr, x1, "q", nx)


# ---------------------------------------------------------------------------------------------
# C08 (a): parsing is total on arbitrary strings
# ---------------------------------------------------------------------------------------------
SLEN = hx.bound("VB_SLEN", 3)
FIRST = hx.sel("VB_FIRST", "")          # partition on the class of the first character
_STRUCT = ';= ,"%\t'


ALPHA = hx.sel("VB_ALPHA", "")            # non-empty: every character of the string is drawn from this alphabet
SECOND = hx.sel("VB_SECOND", "")          # partition: the second character (structural-alphabet runs)


def _alpha_ok(s):
    if not ALPHA:
        return True
    for c in s:
        if c not in ALPHA:
            return False
    if SECOND and (len(s) < 2 or s[1] != SECOND):
        return False
    return True


def _first_ok(s):
    if FIRST == "" or len(s) == 0:
        return FIRST in ("", "empty") if len(s) == 0 else FIRST == ""
    c = s[0]
    if FIRST == "empty":
        return False
    if FIRST == "other":
        return c not in _STRUCT
    return c == _STRUCT[int(FIRST)]


def _check_total(s, provided):
    hx.tick()
    try:
        if provided:
            q, d = parser._split_keyvals(s, dialect=skeleton_dialect(["ID"]))
        else:
            q, d = parser._split_keyvals(s)
    except Exception as ex:
        return hx.msg("_split_keyvals(%r) raised %s", s, type(ex).__name__)
    for k in q.keys():
        if not isinstance(k, str):
            return "a key is not a string"
        vals = q[k]
        if not isinstance(vals, list):
            return "a value is not a list"
        for v in vals:
            if not isinstance(v, str):
                return "a value item is not a string"
    if not isinstance(d, dict) or d.get("fmt") not in ("gff3", "gtf"):
        return "no dialect returned"
    return None


def cond_total(s: str, provided: bool) -> bool:
    """
    pre: len(s) <= SLEN and _first_ok(s) and _alpha_ok(s)
    post: _
    """
    return _check_total(fixlen(s), provided) is None


def reach_total(s: str, provided: bool) -> bool:
    """
    pre: len(s) <= SLEN and _first_ok(s) and _alpha_ok(s)
    post: not _
    """
    return _check_total(fixlen(s), provided) is None and len(s) == SLEN


def diag_total(s, provided):
    return _check_total(s, provided)


# ---------------------------------------------------------------------------------------------
# C08 (b): print -> parse with a SUPPLIED dialect returns the same mapping
# ---------------------------------------------------------------------------------------------
def value8_ok(v):
    if not (1 <= len(v) <= VLEN):
        return False
    if FMT == "gtf":
        for c in v:
            if c in ';",' or c < " " or c == chr(127):
                return False
        # GTF values are read through strip()/split(" "): blanks at the ends / doubled blanks are outside its grammar
        return v[0] not in _WS and v[-1] not in _WS
    return True


def _check_supplied(k1, k2, v1, v2, w, multi):
    hx.tick()
    v1, v2 = fixlen(v1), fixlen(v2)
    items = [(k1, [v1, w] if multi else [v1]), (k2, [v2])]
    D = skeleton_dialect([k1, k2])
    m = Attributes()
    for k, vals in items:
        m[k] = list(vals)
    text = parser._reconstruct(m, D, keep_order=True)
    if "\t" in text or "\n" in text or "\r" in text:
        return hx.msg("printed attribute text %r contains a tab or line break", text)
    q, d2 = parser._split_keyvals(text, dialect=D)
    got = _items_of(q)
    if got != items:
        return hx.msg("re-parsed %r from %r, printed from %r", got, text, items)
    if _items_of(m) != items:
        return "printing modified the mapping"
    # printing twice gives the same text (no state is left behind)
    if parser._reconstruct(m, D, keep_order=True) != text:
        return "second print differs"
    return None


def _sup_ok(k1, k2, v1, v2, w):
    if FIXKEYS and not (k1 == KEYS8[1] and k2 == KEYS8[0] and w == W[0]):
        return False
    return k1 in KEYS8 and k2 in KEYS8 and k1 != k2 and value8_ok(v1) and value8_ok(v2) and w in W and value8_ok(w)


def cond_supplied(k1: str, k2: str, v1: str, v2: str, w: str, multi: bool) -> bool:
    """
    pre: _sup_ok(k1, k2, v1, v2, w)
    post: _
    """
    return _check_supplied(hx.pick(k1, KEYS8), hx.pick(k2, KEYS8), v1, v2, hx.pick(w, W), multi) is None


def reach_supplied(k1: str, k2: str, v1: str, v2: str, w: str, multi: bool) -> bool:
    """
    pre: _sup_ok(k1, k2, v1, v2, w)
    post: not _
    """
    return _check_supplied(hx.pick(k1, KEYS8), hx.pick(k2, KEYS8), v1, v2, hx.pick(w, W), multi) is None and multi and (FIXKEYS or k1 == "c-d")


def diag_supplied(k1, k2, v1, v2, w, multi):
    return _check_supplied(k1, k2, v1, v2, w, multi)


def cond_supplied1(v1: str, multi: bool) -> bool:
    """
    pre: value8_ok(v1)
    post: _
    """
    return _check_supplied("a.b", "ID", v1, "x", "w", multi) is None


def reach_supplied1(v1: str, multi: bool) -> bool:
    """
    pre: value8_ok(v1)
    post: not _
    """
    return _check_supplied("a.b", "ID", v1, "x", "w", multi) is None and multi and v1 > "z"


def diag_supplied1(v1, multi):
    return _check_supplied("a.b", "ID", v1, "x", "w", multi)


# line level: the printed Feature is one line of 9 (+extra) tab-separated columns and re-parses to the same
LVALS = ("a", "\t", "\n", "%", ";", "=", "&", ",", "\x01", "é", '"', " x")


def _check_supplied_line(v1, v2, nx):
    hx.tick()
    D = skeleton_dialect(["a.b", "ID"])
    extras = ["e1", "e2"][:nx]
    f = feature.Feature(seqid="c", source="s", featuretype="t", start=3, end=9, score=".", strand="+", frame=".",
                        attributes={"a.b": [v1, "w"], "ID": [v2]}, dialect=D, extra=list(extras), keep_order=True, bin=0)
    line = str(f)
    if "\n" in line or "\r" in line:
        return hx.msg("printed feature %r is not a single line", line)
    if len(line.split("\t")) != 9 + nx:
        return hx.msg("printed feature has %d columns", len(line.split("\t")))
    g = feature.feature_from_line(line, dialect=D, keep_order=True)
    if [g.seqid, g.source, g.featuretype, g.start, g.end, g.score, g.strand, g.frame] != ["c", "s", "t", 3, 9, ".", "+", "."]:
        return "columns changed"
    if list(g.extra) != extras:
        return "extra columns changed"
    if _items_of(g.attributes) != [("a.b", [v1, "w"]), ("ID", [v2])]:
        return hx.msg("attributes %r after print/parse, expected %r", _items_of(g.attributes), [("a.b", [v1, "w"]), ("ID", [v2])])
    return None


def _lvals():
    if FMT == "gtf":
        return ("a", "%", "=", "&", "é", "x y")
    return LVALS


def cond_supplied_line(v1: str, v2: str, nx: int) -> bool:
    """
    pre: v1 in _lvals() and v2 in _lvals() and 0 <= nx <= 2
    post: _
    """
    return _check_supplied_line(hx.pick(v1, _lvals()), hx.pick(v2, _lvals()), nx) is None


def reach_supplied_line(v1: str, v2: str, nx: int) -> bool:
    """
    pre: v1 in _lvals() and v2 in _lvals() and 0 <= nx <= 2
    post: not _
    """
    return _check_supplied_line(hx.pick(v1, _lvals()), hx.pick(v2, _lvals()), nx) is None and nx == 2 and v1 == "%"


def diag_supplied_line(v1, v2, nx):
    return _check_supplied_line(v1, v2, nx)
