"""C05 harness: duplicate keys are resolved as the merge_strategy says (create_db and update, GFF3 and GTF importers)."""
import gffutils
from gffutils import constants
from gffutils.feature import Feature

from vlib import env, hx, simsql

if hx.SYMBOLIC:
    env.install_simsql()
    env.install_jsonbox()
    env.install_fakefs()
    env.install_bins_stub()
    env.install_nocache_quoter()
    env.install_quiet_stderr()

STRATEGY = hx.sel("VB_STRATEGY", "merge")
FMF = [x for x in hx.sel("VB_FMF", "").split(",") if x]          # force_merge_fields
IMPORTER = hx.sel("VB_IMPORTER", "gff")                          # gff | gtf
MODE = hx.sel("VB_MODE", "create")                               # create | update (later arrivals through FeatureDB.update)
NARR = hx.bound("VB_NARR", 2)
SECOND = hx.sel("VB_SECOND", "")                                 # fixes the 2nd arrival in 3-arrival runs: "src" (differs in source) | "same"
NATURAL = hx.sel("VB_NATURAL", "0") == "1"                       # a feature with the natural id x_1 arrives first
VALS = ("p", "q", "x_1", "x")      # "x" also occurs as the ID value: the same string under two attribute keys
PARS = (None, "P1", "P2")
_GTF = dict(constants.dialect)
_GTF.update({"fmt": "gtf", "field separator": "; ", "keyval separator": " ", "quoted GFF2 values": True, "trailing semicolon": True})
DIALECT = constants.dialect if IMPORTER == "gff" else _GTF
COLS = ("seqid", "source", "featuretype", "start", "end", "score", "strand", "frame")


def _arrival(fid, src, sc, v, par):
    attrs = {"ID": [fid], "k": [v]}
    if par:
        # GFF3: Parent attribute; GTF importer: the transcript_id attribute is the level-1 parent
        attrs["Parent" if IMPORTER == "gff" else "transcript_id"] = [par]
    return Feature(seqid="c", source="s2" if src else "s1", featuretype="mRNA", start=5, end=9, score="7" if sc else ".",
                   strand="+", frame=".", attributes=attrs, dialect=DIALECT)


def _base_features():
    fs = [Feature(seqid="c", source="s1", featuretype="gene", start=1, end=20, strand="+", attributes={"ID": [p]}, dialect=DIALECT)
          for p in ("P1", "P2")]
    if NATURAL:
        fs.append(Feature(seqid="c", source="s1", featuretype="mRNA", start=5, end=9, strand="+", attributes={"ID": ["x_1"], "k": ["n"]},
                          dialect=DIALECT))
    return fs


class Model:
    """the statement, executed on plain data"""

    def __init__(self):
        self.entries = []      # dict(id, origin, cols, attrs{key:[values...]})
        self.rel = []          # (parent, child)
        self.counters = {}
        self.error = False

    def ids(self):
        return [e["id"] for e in self.entries]

    def _fresh(self, key):
        while True:     # '<key>_1', '<key>_2', ... skipping keys that are already taken (unique keys, all kept)
            self.counters[key] = self.counters.get(key, 0) + 1
            cand = "%s_%d" % (key, self.counters[key])
            if cand not in self.ids():
                return cand

    def _new(self, fid, origin, f):
        self.entries.append(dict(id=fid, origin=origin, cols={c: getattr(f, c) for c in COLS},
                                 attrs={k: list(v) for k, v in f.attributes.items()}))

    def arrive(self, f):
        key = f.attributes["ID"][0]
        pk = "Parent" if IMPORTER == "gff" else "transcript_id"
        pars = list(f.attributes[pk]) if pk in f.attributes else []
        if key not in self.ids():
            self._new(key, key, f)
            target = key
        elif STRATEGY == "error":
            self.error = True
            return
        elif STRATEGY == "warning":
            return                                    # "keeps the first and ignores later ones"
        elif STRATEGY == "replace":
            self.entries = [e for e in self.entries if e["id"] != key]
            self.rel = [r for r in self.rel if r[1] != key]
            self._new(key, key, f)
            target = key
        elif STRATEGY == "create_unique":
            target = self._fresh(key)
            self._new(target, key, f)
        elif STRATEGY == "merge":
            cands = [e for e in self.entries if e["origin"] == key]
            hit = None
            for e in cands:
                if all(e["cols"][c] == getattr(f, c) for c in COLS if c not in FMF):
                    hit = e
                    break
            if hit is None:
                target = self._fresh(key)
                self._new(target, key, f)
            else:
                for k, vals in f.attributes.items():
                    cur = hit["attrs"].setdefault(k, [])
                    for v in vals:
                        if v not in cur:
                            cur.append(v)
                for c in FMF:
                    seen = set(str(hit["cols"][c]).split(",")) | set([str(getattr(f, c))])
                    hit["cols"][c] = ",".join(sorted(seen))
                target = hit["id"]
        else:
            raise AssertionError(STRATEGY)
        for p in pars:
            if (p, target) not in self.rel:
                self.rel.append((p, target))


def _connect():
    if hx.SYMBOLIC:
        simsql.reset()
        env.FS.reset()
        return simsql.Connection()
    return ":memory:"


def _observe(db):
    feats = []
    for f in db.all_features():
        feats.append((f.id, tuple(getattr(f, c) for c in COLS), sorted((k, sorted(v)) for k, v in f.attributes.items())))
    rel = sorted((r[0], r[1]) for r in db.conn.execute("SELECT parent, child, level FROM relations ORDER BY parent, child, level") if r[2] == 1)
    return sorted(feats), rel


def _check(arrs):
    """arrs: list of (src, sc, v, par) for the colliding arrivals (all request the key 'x')"""
    hx.tick()
    base = _base_features()
    arrivals = [_arrival("x", *a) for a in arrs]
    model = Model()
    for f in base + arrivals:
        model.arrive(f)
    kw = dict(dialect=DIALECT, checklines=0, merge_strategy=STRATEGY, id_spec="ID", disable_infer_genes=True,
              disable_infer_transcripts=True)
    if FMF:
        kw["force_merge_fields"] = list(FMF)
    raised = None
    try:
        if MODE == "create":
            db = gffutils.create_db(base + arrivals, _connect(), **kw)
        else:
            db = gffutils.create_db(base + arrivals[:1], _connect(), **kw)
            ukw = dict(merge_strategy=STRATEGY, id_spec="ID", disable_infer_genes=True, disable_infer_transcripts=True, make_backup=False)
            if FMF:
                ukw["force_merge_fields"] = list(FMF)
            for f in arrivals[1:]:
                db.update([f], **ukw)
    except ValueError as ex:
        raised = ex
    if model.error:
        return None if raised is not None else "merge_strategy='error' did not abort on a duplicate key"
    if raised is not None:
        return hx.msg("unexpected %s", repr(raised))
    feats, rel = _observe(db)
    exp_feats = sorted((e["id"], tuple(e["cols"][c] for c in COLS), sorted((k, sorted(v)) for k, v in e["attrs"].items()))
                       for e in model.entries)
    if [x[0] for x in feats] != [x[0] for x in exp_feats]:
        return hx.msg("stored keys %r, strategy %s says %r", [x[0] for x in feats], STRATEGY, [x[0] for x in exp_feats])
    if feats != exp_feats:
        return hx.msg("stored features %r, strategy %s says %r", feats, STRATEGY, exp_feats)
    if rel != sorted(model.rel):
        return hx.msg("Parent links %r, strategy %s says %r", rel, STRATEGY, sorted(model.rel))
    return None


def _one_ok(src, sc, v, par):
    return v in VALS and 0 <= par <= 2


def _mk(src, sc, v, par):
    return (src, sc, hx.pick(v, VALS), PARS[par])


def cond_two(src: bool, sc: bool, v: str, par: int) -> bool:
    """
    pre: _one_ok(src, sc, v, par)
    post: _
    """
    return _check([(False, False, "p", "P1"), _mk(src, sc, v, par)]) is None


def reach_two(src: bool, sc: bool, v: str, par: int) -> bool:
    """
    pre: _one_ok(src, sc, v, par)
    post: not _
    """
    return _check([(False, False, "p", "P1"), _mk(src, sc, v, par)]) is None and v == "q" and par == 2


def diag_two(src, sc, v, par):
    return _check([(False, False, "p", "P1"), (src, sc, v, PARS[par])])


def _second():
    if SECOND == "src":
        return (True, False, "q", "P2")
    return (False, False, "q", None)


def cond_three(src: bool, sc: bool, v: str, par: int) -> bool:
    """
    pre: _one_ok(src, sc, v, par)
    post: _
    """
    return _check([(False, False, "p", "P1"), _second(), _mk(src, sc, v, par)]) is None


def reach_three(src: bool, sc: bool, v: str, par: int) -> bool:
    """
    pre: _one_ok(src, sc, v, par)
    post: not _
    """
    return _check([(False, False, "p", "P1"), _second(), _mk(src, sc, v, par)]) is None and src and v == "x_1"


def diag_three(src, sc, v, par):
    return _check([(False, False, "p", "P1"), _second(), (src, sc, v, PARS[par])])
