"""C04 harness: primary keys follow id_spec, are unique, look-ups are exact."""
import collections

import gffutils
from gffutils import constants, create
from gffutils.exceptions import FeatureNotFoundError
from gffutils.feature import Feature

from vlib import env, hx, simsql

if hx.SYMBOLIC:
    env.install_simsql()
    env.install_jsonbox()
    env.install_fakefs()
    env.install_bins_stub()
    env.install_nocache_quoter()
    env.install_quiet_stderr()

SPEC = hx.sel("VB_SPEC", "str")
FTYPES = ("gene", "exon")
AUTOBASES = ("X", "chr1:gene", "chr1:mRNA", "a_b")


def _callable_none(f):
    return None


def _callable_str(f):
    return f.attributes["Name"][0] if "Name" in f.attributes and f.attributes["Name"] else None


def _mk_callable_auto(bases):
    state = {"i": 0}

    def fn(f):
        b = bases[state["i"] % len(bases)]
        state["i"] += 1
        return "autoincrement:" + b
    return fn


def make_spec(bases):
    return {
        "str": "ID", "list": ["ID", "Name"], "tuple": ("Name", "ID"), "dict-str": {"gene": "ID"}, "dict-list": {"gene": ["ID", "Name"]},
        "dict-missing": {"mRNA": "ID"}, "seqid": ":seqid:", "source": [":source:"], "callable-none": _callable_none,
        "callable-str": _callable_str, "callable-auto": _mk_callable_auto(bases), "mixed": [_callable_str, "ID"],
    }[SPEC]


def ref_id(f, counters, bases, ncall):
    """the statement's rule.  -> ('id', value) | ('error',)"""
    def auto(base):
        counters[base] = counters.get(base, 0) + 1
        return ("id", "%s_%d" % (base, counters[base]))

    def first_attr(keys):
        for k in keys:
            if k in f.attributes and len(f.attributes[k]) > 0:
                if len(f.attributes[k]) > 1:
                    return ("error",)
                return ("id", f.attributes[k][0])
        return None

    if SPEC in ("str", "list", "tuple"):
        keys = {"str": ["ID"], "list": ["ID", "Name"], "tuple": ["Name", "ID"]}[SPEC]
        return first_attr(keys) or auto(f.featuretype)
    if SPEC in ("dict-str", "dict-list", "dict-missing"):
        table = {"dict-str": {"gene": ["ID"]}, "dict-list": {"gene": ["ID", "Name"]}, "dict-missing": {"mRNA": ["ID"]}}[SPEC]
        if f.featuretype not in table:
            return auto(f.featuretype)
        return first_attr(table[f.featuretype]) or auto(f.featuretype)
    if SPEC == "seqid":
        return ("id", f.seqid)
    if SPEC == "source":
        return ("id", f.source)
    if SPEC == "callable-none":
        return auto(f.featuretype)
    if SPEC == "callable-str":
        v = _callable_str(f)
        return ("id", v) if v else auto(f.featuretype)
    if SPEC == "callable-auto":
        return auto(bases[ncall % len(bases)])
    if SPEC == "mixed":
        v = _callable_str(f)
        if v:
            return ("id", v)
        return first_attr(["ID"]) or auto(f.featuretype)
    raise AssertionError(SPEC)


def _features(ids, names, nid, nname, ft, sq):
    out = []
    for i in range(3):
        attrs = {}
        if nid[i]:
            attrs["ID"] = [ids[i], ids[i] + "2"][:nid[i]]
        if nname[i]:
            attrs["Name"] = [names[i], "n2"][:nname[i]]
        out.append(Feature(seqid=sq[i], source="src%d" % i, featuretype=ft[i], start=1, end=2, bin=0, attributes=attrs))
    return out


def _check_handler(ids, names, nid, nname, ft, sq, bases):
    hx.tick()
    c = create._GFFDBCreator.__new__(create._GFFDBCreator)
    c.id_spec = make_spec(bases)
    c._autoincrements = collections.defaultdict(int)
    counters = {}
    for n, f in enumerate(_features(ids, names, nid, nname, ft, sq)):
        exp = ref_id(f, counters, bases, n)
        try:
            got = ("id", c._id_handler(f))
        except ValueError:
            got = ("error",)
        if exp[0] == "error":
            if got[0] != "error":
                return hx.msg("feature %d: id attribute with several values accepted as %r", n, got)
            continue
        if got != exp:
            return hx.msg("feature %d: key %r, id_spec %s says %r", n, got, SPEC, exp)
    return None


PA0, PB0 = hx.bound("VB_A0", -1), hx.bound("VB_B0", -1)    # partition: number of ID / Name values of feature 0
LAST_BARE = hx.sel("VB_LASTBARE", "0") == "1"                 # quick: the third feature carries no ID/Name


def _h_ok(i0, i1, i2, n0, n1, n2, a0, a1, a2, b0, b1, b2, t0, t1, t2, q0):
    if (PA0 >= 0 and a0 != PA0) or (PB0 >= 0 and b0 != PB0) or (LAST_BARE and (a2 != 0 or b2 != 0)):
        return False
    for s in (i0, i1, i2, n0, n1, n2, q0):
        if len(s) > 1:
            return False
    for x in (a0, a1, a2, b0, b1, b2):
        if not (0 <= x <= 2):
            return False
    return t0 in FTYPES and t1 in FTYPES and t2 in FTYPES


def cond_handler(i0: str, i1: str, i2: str, n0: str, n1: str, n2: str, a0: int, a1: int, a2: int, b0: int, b1: int, b2: int,
                 t0: str, t1: str, t2: str, q0: str) -> bool:
    """
    pre: _h_ok(i0, i1, i2, n0, n1, n2, a0, a1, a2, b0, b1, b2, t0, t1, t2, q0)
    post: _
    """
    ft = [hx.pick(t, FTYPES) for t in (t0, t1, t2)]
    return _check_handler([i0, i1, i2], [n0, n1, n2], [a0, a1, a2], [b0, b1, b2], ft, [q0, "c", q0], AUTOBASES) is None


def reach_handler(i0: str, i1: str, i2: str, n0: str, n1: str, n2: str, a0: int, a1: int, a2: int, b0: int, b1: int, b2: int,
                  t0: str, t1: str, t2: str, q0: str) -> bool:
    """
    pre: _h_ok(i0, i1, i2, n0, n1, n2, a0, a1, a2, b0, b1, b2, t0, t1, t2, q0)
    post: not _
    """
    ft = [hx.pick(t, FTYPES) for t in (t0, t1, t2)]
    return _check_handler([i0, i1, i2], [n0, n1, n2], [a0, a1, a2], [b0, b1, b2], ft, [q0, "c", q0], AUTOBASES) is None \
        and a1 == 1 and t0 == t2


def diag_handler(i0, i1, i2, n0, n1, n2, a0, a1, a2, b0, b1, b2, t0, t1, t2, q0):
    return _check_handler([i0, i1, i2], [n0, n1, n2], [a0, a1, a2], [b0, b1, b2], [t0, t1, t2], [q0, "c", q0], AUTOBASES)


# ---------------------------------------------------------------------------------------------
# database level: unique keys, exact look-ups, FeatureNotFoundError, default id_spec per format
# ---------------------------------------------------------------------------------------------
FORMAT = hx.sel("VB_FORMAT", "gff3")
_GTF = dict(constants.dialect)
_GTF.update({"fmt": "gtf", "field separator": "; ", "keyval separator": " ", "quoted GFF2 values": True, "trailing semicolon": True})


def _connect():
    if hx.SYMBOLIC:
        simsql.reset()
        env.FS.reset()
        return simsql.Connection()
    return ":memory:"


def _check_db(i0, i1, i2, has0, has1, has2, probe):
    hx.tick()
    ids, has = [i0, i1, i2], [has0, has1, has2]
    feats = []
    for n in range(3):
        if FORMAT == "gff3":
            attrs = {"ID": [ids[n]]} if has[n] else {"note": ["x"]}
            feats.append(Feature(seqid="c", source="s", featuretype="gene", start=n + 1, end=n + 5, strand="+", attributes=attrs,
                                 dialect=constants.dialect))
        else:
            ft = "gene" if has[n] else "CDS"
            feats.append(Feature(seqid="c", source="s", featuretype=ft, start=n + 1, end=n + 5, strand="+",
                                 attributes={"gene_id": [ids[n]], "transcript_id": ["t" + ids[n]]}, dialect=_GTF))
    db = gffutils.create_db(feats, _connect(), dialect=constants.dialect if FORMAT == "gff3" else _GTF, checklines=0,
                            merge_strategy="create_unique", disable_infer_genes=True, disable_infer_transcripts=True)
    stored = list(db.all_features())
    if len(stored) != 3:
        return hx.msg("%d features stored", len(stored))
    keys = [f.id for f in stored]
    for a in range(3):
        for b in range(a + 1, 3):
            if keys[a] == keys[b]:
                return hx.msg("two features share the key %r", keys[a])
    # expected keys by the rule (create_unique renames later duplicates)
    exp, seen_counts, auto = [], [], {}
    for n in range(3):
        if has[n]:
            base = ids[n]
            k = base
            m = 0
            while any(k == e for e in exp):
                m += 1
                k = "%s_%d" % (base, m)
            exp.append(k)
        else:
            t = "gene" if FORMAT == "gff3" else "CDS"
            auto[t] = auto.get(t, 0) + 1
            exp.append("%s_%d" % (t, auto[t]))
    if keys != exp:
        return hx.msg("keys %r, id_spec/create_unique rule says %r", keys, exp)
    for n, f in enumerate(stored):
        g = db[f.id]
        if g.id != f.id or str(g) != str(f) or g.start != n + 1:
            return "db[key] does not return the feature stored under it"
        if db[f].id != f.id:
            return "db[feature] does not return the feature stored under its key"
    if not any(probe == k for k in keys):
        try:
            db[probe]
            return hx.msg("absent key %r did not raise", probe)
        except FeatureNotFoundError:
            pass
    return None


IDA = ("a", "b", "c")            # finite: a duplicate id is hashed by the autoincrement counter (a natural id colliding with a generated key is C05 business)
PROBES = ("a", "a_1", "zz", "gene_1", "") if hx.sel("VB_FEWPROBES", "0") == "1" else ("a", "b", "a_1", "a_2", "zz", "gene_1", "CDS_1", "")
I0 = hx.sel("VB_I0", "")
HAS = hx.sel("VB_HAS", "")     # partition: which features carry the id attribute, e.g. "110"


def _db_ok(i0, i1, i2, probe, has0=None, has1=None, has2=None):
    if HAS and [has0, has1, has2] != [c == "1" for c in HAS]:
        return False
    if I0 and i0 != I0:
        return False
    return all(s in IDA for s in (i0, i1, i2)) and probe in PROBES


def cond_db(i0: str, i1: str, i2: str, has0: bool, has1: bool, has2: bool, probe: str) -> bool:
    """
    pre: _db_ok(i0, i1, i2, probe, has0, has1, has2)
    post: _
    """
    return _check_db(hx.pick(i0, IDA), hx.pick(i1, IDA), hx.pick(i2, IDA), has0, has1, has2, hx.pick(probe, PROBES)) is None


def reach_db(i0: str, i1: str, i2: str, has0: bool, has1: bool, has2: bool, probe: str) -> bool:
    """
    pre: _db_ok(i0, i1, i2, probe, has0, has1, has2)
    post: not _
    """
    return _check_db(hx.pick(i0, IDA), hx.pick(i1, IDA), hx.pick(i2, IDA), has0, has1, has2, hx.pick(probe, PROBES)) is None and (not (has0 and has1) or i0 == i1)


def diag_db(i0, i1, i2, has0, has1, has2, probe):
    return _check_db(i0, i1, i2, has0, has1, has2, probe)
