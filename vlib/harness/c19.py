"""C19 harness: existing databases are never clobbered; read-style methods never write."""
import gffutils
from gffutils import constants
from gffutils import merge_criteria as mc
from gffutils.feature import Feature

from vlib import env, hx, simsql

if hx.SYMBOLIC:
    env.install_simsql()
    env.install_jsonbox()
    env.install_fakefs()
    env.install_bins_stub()
    env.install_nocache_quoter()
    env.install_quiet_stderr()

_N = [0]


def _reset():
    if hx.SYMBOLIC:
        simsql.reset()
        env.FS.reset()


def _dbpath(name):
    _N[0] += 1
    if hx.SYMBOLIC:
        return "/fake/%d_%s" % (_N[0], name)
    import os
    return os.path.join(os.environ.get("VERIF_SCRATCH", "."), "%d_%s" % (_N[0], name))


def _content(path):
    """what a fresh reader of the database file sees"""
    if hx.SYMBOLIC:
        return simsql.snapshot(simsql.STORES[path])
    import sqlite3
    c = sqlite3.connect(path)
    out = []
    for t in ("features", "relations", "meta", "directives", "autoincrements", "duplicates"):
        out.append((t, [list(r) for r in c.execute("SELECT rowid, * FROM %s ORDER BY rowid" % t)]))
    c.close()
    return out


def _old_features(n_old):
    fs = [Feature(seqid="c", source="old", featuretype="gene", start=1, end=50, strand="+", attributes={"ID": ["og"]}),
          Feature(seqid="c", source="old", featuretype="mRNA", start=2, end=40, strand="+", attributes={"ID": ["om"], "Parent": ["og"]}),
          Feature(seqid="c", source="old", featuretype="exon", start=3, end=9, strand="+", attributes={"Parent": ["om"]})]
    return fs[:n_old]


def _new_features(n_new):
    fs = [Feature(seqid="d", source="new", featuretype="gene", start=100, end=150, strand="-", attributes={"ID": ["ng"]}),
          Feature(seqid="d", source="new", featuretype="exon", start=101, end=109, strand="-", attributes={"Parent": ["ng"]})]
    return fs[:n_new]


def _check_clobber(n_old, n_new, force, emptied, via_string):
    hx.tick()
    _reset()
    path = _dbpath("x.db")
    old = gffutils.create_db(_old_features(n_old), path, dialect=constants.dialect, checklines=0)
    if emptied:
        old.delete([f.id for f in old.all_features()], make_backup=False)
    before = _content(path)
    if via_string:
        data = "".join(str(f) + "\n" for f in _new_features(n_new))
        kw = dict(from_string=True)
    else:
        data, kw = _new_features(n_new), dict(dialect=constants.dialect, checklines=0)
    raised = None
    try:
        db = gffutils.create_db(data, path, force=force, **kw)
    except Exception as ex:
        raised = ex
    if not force:
        if raised is None:
            return "create_db on an existing database did not raise without force=True"
        if _content(path) != before:
            return "the existing database was modified although create_db raised"
        return None
    if raised is not None:
        return hx.msg("force=True raised %r", raised)
    got = gffutils.FeatureDB(path)
    feats = [str(f) for f in got.all_features()]
    if feats != [str(f) for f in _new_features(n_new)]:
        return hx.msg("after force=True the database holds %r", feats)
    if any(f.source == "old" for f in got.all_features()) or any("o" == r[0][0] for r in got.conn.execute("SELECT parent FROM relations")):
        return "old content survived force=True"
    if got.count_features_of_type() != n_new:
        return "feature count differs from the new input"
    return None


def cond_clobber(n_old: int, n_new: int, force: bool, emptied: bool, via_string: bool) -> bool:
    """
    pre: 1 <= n_old <= 3 and 1 <= n_new <= 2
    post: _
    """
    return _check_clobber(n_old, n_new, force, emptied, via_string) is None


def reach_clobber(n_old: int, n_new: int, force: bool, emptied: bool, via_string: bool) -> bool:
    """
    pre: 1 <= n_old <= 3 and 1 <= n_new <= 2
    post: not _
    """
    return _check_clobber(n_old, n_new, force, emptied, via_string) is None and not force and emptied and n_old == 3


def diag_clobber(n_old, n_new, force, emptied, via_string):
    return _check_clobber(n_old, n_new, force, emptied, via_string)


# ---------------------------------------------------------------------------------------------
METHOD = hx.sel("VB_METHOD", "children")
BMAX, CMAX, DMAX = hx.bound("VB_BMAX", 3), hx.bound("VB_CMAX", 2), hx.bound("VB_DMAX", 3)
LEVELS = (None, 1, 2)
FTS = (None, "exon", "mRNA", ("exon", "CDS"))
STRANDS = (None, "+", "-")
ORDERS = (None, "start", ("seqid", "start"), "length")


def _read_db():
    fs = [Feature(seqid="c", source="s", featuretype="gene", start=1, end=50, strand="+", attributes={"ID": ["g"]}),
          Feature(seqid="c", source="s", featuretype="mRNA", start=2, end=40, strand="+", attributes={"ID": ["m"], "Parent": ["g"]}),
          Feature(seqid="c", source="s", featuretype="exon", start=3, end=9, strand="+", attributes={"ID": ["e1"], "Parent": ["m"]}),
          Feature(seqid="c", source="s", featuretype="exon", start=8, end=20, strand="+", attributes={"ID": ["e2"], "Parent": ["m"]}),
          Feature(seqid="c", source="s", featuretype="exon", start=30, end=40, strand="+", attributes={"Parent": ["m"]}),
          # an explicit id that looks like the NEXT generated key (exon_2): id generation in read-style calls must not
          # resolve such a coincidence by writing to the database
          Feature(seqid="c", source="s", featuretype="exon", start=60, end=70, strand="+", attributes={"ID": ["exon_2"], "Parent": ["m"]})]
    path = _dbpath("r.db")
    gffutils.create_db(fs, path, dialect=constants.dialect, checklines=0)
    return path


def _call(db, a, b, c, d, flag):
    lvl, ft, st, ob = LEVELS[a % 3], FTS[b % 4], STRANDS[c % 3], ORDERS[d % 4]
    m = METHOD
    if m == "getitem":
        return [db[("g", "m", "e1", "exon_1")[b % 4]]]
    if m == "all_features":
        return list(db.all_features(featuretype=ft, strand=st, order_by=ob, reverse=flag,
                                    limit=("c", 1 + a, 10 + d) if flag else None))
    if m == "features_of_type":
        return list(db.features_of_type(ft or "gene", strand=st, order_by=ob, reverse=flag))
    if m == "children":
        return list(db.children(("g", "m", "e1")[c % 3], level=lvl, featuretype=ft, order_by=ob, reverse=flag))
    if m == "parents":
        return list(db.parents(("e1", "m", "exon_1")[c % 3], level=lvl, featuretype=ft, order_by=ob))
    if m == "region":
        return list(db.region(seqid="c", start=1 + a, end=10 + d, strand=st, featuretype=ft, completely_within=flag))
    if m == "interfeatures":
        return list(db.interfeatures(db.children("m", featuretype="exon", order_by="start"), merge_attributes=flag, numeric_sort=bool(a % 2)))
    if m == "create_introns":
        return list(db.create_introns(merge_attributes=flag)) + list(db.create_splice_sites()) if a % 2 else list(db.create_introns(merge_attributes=flag))
    if m == "merge":
        crit = [(mc.seqid, mc.overlap_end_inclusive, mc.strand, mc.feature_type), [mc.overlap_any_inclusive], [mc.seqid]][a % 3]
        return list(db.merge(db.children("m", featuretype="exon", order_by="start"), merge_criteria=crit))
    if m == "children_bp":
        return [db.children_bp(("m", "g")[a % 2], child_featuretype=("exon", "mRNA")[b % 2], merge=flag)]
    if m == "bed12":
        return [db.bed12("m" if flag else db["m"], name_field=("ID", "Name")[a % 2])]
    if m == "counts":
        return [db.count_features_of_type(ft if isinstance(ft, str) else None), list(db.featuretypes()), list(db.seqids()),
                [len(x) for x in db.iter_by_parent_childs(featuretype=("gene", "mRNA")[a % 2])]]
    raise AssertionError(m)


def _check_readonly(a, b, c, d, flag):
    hx.tick()
    _reset()
    path = _read_db()
    before = _content(path)
    db = gffutils.FeatureDB(path)
    n0 = len(simsql.LOG) if hx.SYMBOLIC else 0
    if not hx.SYMBOLIC:
        stmts = []
        db.conn.set_trace_callback(stmts.append)
    try:
        _call(db, a, b, c, d, flag)
    except ValueError:
        pass           # argument combinations a method rejects (e.g. bed12 span checks) are fine: still no writes allowed
    if hx.SYMBOLIC:
        kinds = [k for (_, k, _) in simsql.LOG[n0:]]
        bad = [k for k in kinds if k not in ("select", "pragma")]
    else:
        bad = [s for s in stmts if s.strip().split()[0].upper() not in ("SELECT", "PRAGMA", "BEGIN", "COMMIT")]
    if bad:
        return hx.msg("%s issued non-SELECT statements: %r", METHOD, bad)
    db.conn.commit()
    if _content(path) != before:
        return hx.msg("%s changed the database content", METHOD)
    re = gffutils.FeatureDB(path)
    if dict(re._autoincrements) != {"exon": 1} or re.directives != [] or re.dialect["fmt"] != "gff3":
        return hx.msg("%s changed counters/directives/dialect seen after reopening: %r", METHOD, dict(re._autoincrements))
    return None


def cond_readonly(a: int, b: int, c: int, d: int, flag: bool) -> bool:
    """
    pre: 0 <= a <= 2 and 0 <= b <= BMAX and 0 <= c <= CMAX and 0 <= d <= DMAX
    post: _
    """
    return _check_readonly(a, b, c, d, flag) is None


def reach_readonly(a: int, b: int, c: int, d: int, flag: bool) -> bool:
    """
    pre: 0 <= a <= 2 and 0 <= b <= BMAX and 0 <= c <= CMAX and 0 <= d <= DMAX
    post: not _
    """
    return _check_readonly(a, b, c, d, flag) is None and a == 0 and flag


def diag_readonly(a, b, c, d, flag):
    return _check_readonly(a, b, c, d, flag)
