"""C20 harness (Engine X part): one import leaves no temporary file behind and reads each intermediate file only
after its writer closed it - for every path through create_db over the fakefs stand-in.  Also exports the file
event trace of an import for the interleaving model in vlib/props/c20.py."""
import gffutils

from vlib import env, hx, simsql

if hx.SYMBOLIC or hx.sel("VB_TRACE", "0") == "1":
    env.install_simsql()
    env.install_jsonbox()
    env.install_fakefs()
    env.install_bins_stub()
    env.install_nocache_quoter()
    env.install_quiet_stderr()

GFF = ("c\ts\tgene\t1\t90\t.\t+\t.\tID=g%d", "c\ts\tmRNA\t2\t80\t.\t+\t.\tID=m%d;Parent=g0", "c\ts\texon\t3\t9\t.\t+\t.\tParent=m0;n=%d",
       "#comment %d")
GTF = ('c\ts\texon\t3\t9\t.\t+\t.\tgene_id "g"; transcript_id "t%d";', 'c\ts\tCDS\t4\t8\t.\t+\t0\tgene_id "g"; transcript_id "t%d";',
       'c\ts\tstart_codon\t4\t6\t.\t+\t0\tgene_id "g"; transcript_id "u%d";', "#comment %d")
_N = [0]


def _run(fmt, k0, k1, k2, dg, dt, from_string, strategy):
    """-> (fakefs log, files left, input path or None)"""
    simsql.reset()
    env.FS.reset()
    kinds = GFF if fmt == "gff" else GTF
    lines = [kinds[k] % i for i, k in enumerate((k0, k1, k2))]
    if all(l.startswith("#") for l in lines):
        lines[0] = kinds[0] % 0
    text = "\n".join(lines) + "\n"
    _N[0] += 1
    kw = dict(merge_strategy=strategy, disable_infer_genes=dg, disable_infer_transcripts=dt)
    if from_string:
        gffutils.create_db(text, "/fake/out%d.db" % _N[0], from_string=True, **kw)
        inp = None
    else:
        inp = "/fake/in%d.gff" % _N[0]
        env.FS.files[inp] = text
        gffutils.create_db(inp, "/fake/out%d.db" % _N[0], **kw)
    return list(env.FS.log), sorted(env.FS.files), inp


def _check(fmt, k0, k1, k2, dg, dt, from_string, strategy):
    hx.tick()
    if not hx.SYMBOLIC:
        return _real(fmt == "gtf", k0, k1, k2, dg, dt, from_string, STRATS.index(strategy))
    log, left, inp = _run(fmt, k0, k1, k2, dg, dt, from_string, strategy)
    created = [e[1] for e in log if e[0] == "create"]
    for name in created:
        if ("unlink", name) not in log:
            return hx.msg("temporary file %r was created but never removed", name)
    if any(e[0] == "read-before-close" for e in log):
        return "an intermediate file was opened for reading while its writer was still open"
    extra = [f for f in left if f != inp]
    if extra:
        return hx.msg("files left behind after create_db returned: %r", extra)
    # every file the import wrote was created through the tempfile API (unique name per call)
    for e in log:
        if e[0] == "open-w" and e[1] not in created:
            return hx.msg("the import wrote %r, a name that did not come from tempfile", e[1])
    return None


STRATS = ("create_unique", "merge")
P_GTF, P_FS, P_K0, P_ST = hx.bound("VB_GTF", -1), hx.bound("VB_FS", -1), hx.bound("VB_K0", -1), hx.bound("VB_ST", -1)


def _part_ok(gtf, k0, k1, k2, dg, dt, from_string, st):
    if not (0 <= k0 <= 3 and 0 <= k1 <= 3 and 0 <= k2 <= 3 and 0 <= st <= 1):
        return False
    if (P_GTF >= 0 and gtf != bool(P_GTF)) or (P_FS >= 0 and from_string != bool(P_FS)) or (P_K0 >= 0 and k0 != P_K0) or (P_ST >= 0 and st != P_ST):
        return False
    if not gtf and (dg or dt):
        return False          # the GFF3 importer ignores the inference flags
    return True


def cond_hygiene(gtf: bool, k0: int, k1: int, k2: int, dg: bool, dt: bool, from_string: bool, st: int) -> bool:
    """
    pre: _part_ok(gtf, k0, k1, k2, dg, dt, from_string, st)
    post: _
    """
    return _check("gtf" if gtf else "gff", k0, k1, k2, dg, dt, from_string, STRATS[st]) is None


def reach_hygiene(gtf: bool, k0: int, k1: int, k2: int, dg: bool, dt: bool, from_string: bool, st: int) -> bool:
    """
    pre: _part_ok(gtf, k0, k1, k2, dg, dt, from_string, st)
    post: not _
    """
    return _check("gtf" if gtf else "gff", k0, k1, k2, dg, dt, from_string, STRATS[st]) is None and (not gtf or not dt)


def diag_hygiene(gtf, k0, k1, k2, dg, dt, from_string, st):
    return _real(gtf, k0, k1, k2, dg, dt, from_string, st)


def _real(gtf, k0, k1, k2, dg, dt, from_string, st):
    """real stack: run the import in a private temp dir and list what is left"""
    import os
    import tempfile
    d = tempfile.mkdtemp(prefix="verif-c20-", dir=os.environ.get("VERIF_SCRATCH"))
    old = tempfile.tempdir
    tempfile.tempdir = d
    try:
        kinds = GTF if gtf else GFF
        lines = [kinds[k] % i for i, k in enumerate((k0, k1, k2))]
        if all(l.startswith("#") for l in lines):
            lines[0] = kinds[0] % 0
        text = "\n".join(lines) + "\n"
        out = os.path.join(os.environ.get("VERIF_SCRATCH", "."), "c20_out_%d.db" % os.getpid())
        if os.path.exists(out):
            os.unlink(out)
        kw = dict(merge_strategy=STRATS[st], disable_infer_genes=dg, disable_infer_transcripts=dt)
        if from_string:
            gffutils.create_db(text, out, from_string=True, **kw)
        else:
            inp = os.path.join(os.environ.get("VERIF_SCRATCH", "."), "c20_in_%d.gff" % os.getpid())
            with open(inp, "w") as f:
                f.write(text)
            gffutils.create_db(inp, out, **kw)
        left = sorted(os.listdir(d))
        if left:
            return "files left in the temporary directory after create_db returned: %r" % left
        return forked_names(gtf)
    finally:
        tempfile.tempdir = old
        import shutil
        shutil.rmtree(d, ignore_errors=True)


def trace(fmt, from_string):
    """file events of one representative import (for the interleaving model)"""
    log, left, inp = _run(fmt, 0, 1, 2, False, False, from_string, "create_unique")
    return [e for e in log if e[0] in ("create", "open-w", "close", "open-r", "unlink")], inp


def forked_names(gtf):
    """real stack: two forked processes import at the same time into one shared temp dir with _keep_tempfiles; each
    must have used its own intermediate file (name independence)"""
    import multiprocessing
    import os
    import shutil
    import tempfile
    d = tempfile.mkdtemp(prefix="verif-c20f-", dir=os.environ.get("VERIF_SCRATCH"))
    old = tempfile.tempdir
    tempfile.tempdir = d
    try:
        text = (GTF[0] % 0 + "\n" + GTF[1] % 1 + "\n") if gtf else (GFF[0] % 0 + "\n" + GFF[1] % 0 + "\n" + GFF[2] % 0 + "\n")
        inp = os.path.join(d, "input.txt")
        with open(inp, "w") as f:
            f.write(text)

        def work(i):
            gffutils.create_db(inp, os.path.join(d, "out%d.db" % i), _keep_tempfiles=True)

        ctx = multiprocessing.get_context("fork")
        ps = [ctx.Process(target=work, args=(i,)) for i in range(2)]
        for p in ps:
            p.start()
        for p in ps:
            p.join()
        kept = sorted(f for f in os.listdir(d) if f.endswith(".gffutils"))
        if len(kept) != 2:
            return "two forked imports sharing a temp dir used %d distinct intermediate file name(s): %r" % (len(kept), kept)
        return None
    finally:
        tempfile.tempdir = old
        shutil.rmtree(d, ignore_errors=True)
