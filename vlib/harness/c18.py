"""C18 harness: len(Feature), Feature.sequence, FeatureDB.bed12, convert.to_bed12."""
import os
from typing import List, Tuple

import gffutils
from gffutils import constants, convert
from gffutils.feature import Feature

from vlib import env, hx, simsql

if hx.SYMBOLIC:
    env.install_bins_stub()
    env.install_jsonbox()
    env.install_simsql()
    env.install_fakefs()
    env.install_nocache_quoter()


# ---- len -------------------------------------------------------------------------------------------
def cond_len(start: int, extent: int) -> bool:
    """
    pre: 0 <= extent <= 8
    post: _
    """
    hx.tick()
    f = Feature(seqid="c", start=start, end=start + extent, bin=0)
    return len(f) == extent + 1 and len(f) == f.end - f.start + 1


def reach_len(start: int, extent: int) -> bool:
    """
    pre: 0 <= extent <= 8
    post: not _
    """
    return cond_len(start, extent) and extent == 3 and start > 10 ** 12


def diag_len(start, extent):
    f = Feature(seqid="c", start=start, end=start + extent, bin=0)
    return None if len(f) == extent + 1 else "len = %d" % len(f)


SEQLEN = hx.bound("VB_SEQLEN", 4)


# ---- sequence -----------------------------------------------------------------------------------------
_COMP = {"A": "T", "C": "G", "G": "C", "T": "A", "N": "N"}


class _FakeSeq:
    def __init__(self, s):
        self.seq = s

    @property
    def reverse(self):
        return _FakeSeq(self.seq[::-1])

    @property
    def complement(self):
        return _FakeSeq("".join(_COMP[c] for c in self.seq))


class _FakeRecord:
    def __init__(self, s):
        self._s = s

    def __getitem__(self, sl):
        return _FakeSeq(self._s[sl])


class FakeFasta:
    """documented pyfaidx contract: fa[name][a:b] slices 0-based half-open; .reverse.complement; .seq"""

    def __init__(self, records):
        self._r = records

    def __getitem__(self, name):
        return _FakeRecord(self._r[name])


def _fasta(seq):
    if hx.SYMBOLIC:
        return FakeFasta({"chr": seq, "other": "TTTTTTTT"})
    import pyfaidx
    d = os.environ.get("VERIF_SCRATCH", ".")
    p = os.path.join(d, "replay.fa")
    with open(p, "w") as f:
        f.write(">other\nTTTTTTTT\n>chr\n%s\n" % seq)
    return pyfaidx.Fasta(p, as_raw=False)


def _check_seq(seq, start, end, strand, use_strand, by_name):
    hx.tick()
    f = Feature(seqid="chr", start=start, end=end, strand=strand, bin=0)
    fa = _fasta(seq)
    got = f.sequence(fa, use_strand=use_strand)
    want = seq[start - 1:end]
    if strand == "-" and use_strand:
        want = "".join(_COMP[c] for c in want[::-1])
    if got != want:
        return hx.msg("sequence %r, expected %r", got, want)
    if len(got) != len(f):
        return "sequence length differs from len(feature)"
    return None


def _seq_ok(seq, start, end, strand):
    if (SLEN and len(seq) != SLEN) or (SSTRAND and strand != SSTRAND):
        return False
    return 1 <= len(seq) <= SEQLEN and all(c in "ACGTN" for c in seq) and 1 <= start <= end <= len(seq) and strand in ("+", "-", ".")


def cond_seq(seq: str, start: int, end: int, strand: str, use_strand: bool) -> bool:
    """
    pre: _seq_ok(seq, start, end, strand)
    post: _
    """
    return _check_seq(seq, start, end, strand, use_strand, False) is None


def reach_seq(seq: str, start: int, end: int, strand: str, use_strand: bool) -> bool:
    """
    pre: _seq_ok(seq, start, end, strand)
    post: not _
    """
    return _check_seq(seq, start, end, strand, use_strand, False) is None and strand == "-" and use_strand and end - start >= 2 and seq[start - 1] != seq[end - 1]


def diag_seq(seq, start, end, strand, use_strand):
    return _check_seq(seq, start, end, strand, use_strand, False)


# ---- bed12 ------------------------------------------------------------------------------------------------
TS, TE = hx.bound("VB_TS", 2), hx.bound("VB_TE", 5)
HI = hx.bound("VB_HI", 6)
NEX = hx.bound("VB_NEX", 2)
E0 = hx.bound("VB_E0", 0)      # partition: start of the first exon (0 = any)
NCDS = hx.bound("VB_NCDS", 0)
FIXFLAGS = hx.bound("VB_FIXFLAGS", 0)   # 1: strand '+', by Feature, ID present (only geometry symbolic)
FIXEX = hx.bound("VB_FIXEX", 0)         # 1: exons are the two one-base blocks at the transcript ends (thick features symbolic)
SLEN = hx.bound("VB_SLEN", 0)           # partition of the sequence condition: exact length (0 = any <= SEQLEN)
SSTRAND = hx.sel("VB_SSTRAND", "")


def _connect():
    if hx.SYMBOLIC:
        simsql.reset()
        env.FS.reset()
        return simsql.Connection()
    return ":memory:"


def _mkdb(exons, cds, strand, with_id):
    attrs = {"ID": ["t"]} if with_id else {"Name": ["t"]}
    feats = [Feature(seqid="c", source="s", featuretype="mRNA", start=TS, end=TE, score=".", strand=strand, attributes=attrs)]
    for i, (a, b) in enumerate(exons):
        feats.append(Feature(seqid="c", source="s", featuretype="exon", start=a, end=b, strand=strand,
                             attributes={"ID": ["e%d" % i], "Parent": ["t"]}))
    for i, (a, b) in enumerate(cds):
        feats.append(Feature(seqid="c", source="s", featuretype="CDS", start=a, end=b, strand=strand,
                             attributes={"ID": ["c%d" % i], "Parent": ["t"]}))
    return gffutils.create_db(feats, _connect(), dialect=constants.dialect, checklines=0,
                              id_spec="ID" if with_id else "Name")


def _check_bed12(exons, cds, strand, by_feature, with_id):
    hx.tick()
    db = _mkdb(exons, cds, strand, with_id)
    arg = db["t"] if by_feature else "t"
    blocks = sorted(exons) if exons else [(TS, TE)]
    # "span": the ascending blocks begin at the feature's start and the last one ends at its end (the statement's
    # "first 0, last block ending at chromEnd"); a nested block reaching beyond the feature is not pinned by it
    spans = blocks[0][0] == TS and blocks[-1][1] == TE
    try:
        line = db.bed12(arg, name_field="ID")
    except ValueError:
        if spans:
            return "ValueError although the blocks span the feature"
        return None
    if not spans:
        return "no ValueError although the blocks do not span the feature"
    if "\n" in line:
        return "bed12 line contains a newline"
    f = line.split("\t")
    if len(f) != 12:
        return hx.msg("%d fields", len(f))
    want = ["c", str(TS - 1), str(TE), "t" if with_id else ".", "0", strand]
    if f[:6] != want:
        return hx.msg("first six fields %r, expected %r", f[:6], want)
    if f[9] != str(len(blocks)):
        return "blockCount wrong"
    sizes = ",".join(str(b - a + 1) for a, b in blocks)
    starts = ",".join(str(a - 1 - (TS - 1)) for a, b in blocks)
    if f[10] != sizes or f[11] != starts:
        return hx.msg("blockSizes/blockStarts %r/%r, expected %r/%r", f[10], f[11], sizes, starts)
    if not starts.startswith("0") or (TS - 1) + (blocks[-1][0] - TS) + (blocks[-1][1] - blocks[-1][0] + 1) != TE:
        return "first block does not start at 0 or last block does not end at chromEnd"
    if cds:
        cs = sorted(cds)
        if f[6] != str(cs[0][0] - 1) or f[7] != str(cs[-1][1]):
            return hx.msg("thickStart/thickEnd %r/%r, expected from the thick features %r", f[6], f[7], cs)
    # the alternative converter agrees on the common core
    g = convert.to_bed12(arg, db, child_type="exon", name_field="ID").rstrip("\n").split("\t")
    if len(g) != 12 or g[0] != "c" or g[1] != str(TS - 1) or g[2] != str(TE) or g[5] != strand:
        return hx.msg("convert.to_bed12 core fields %r", g)
    if exons and (g[9] != f[9] or g[10] != f[10] or g[11] != f[11]):
        return hx.msg("convert.to_bed12 blocks %r differ from %r", g[9:], f[9:])
    return None


def _bed_ok(exons, cds, strand, by_feature=True, with_id=True):
    if len(exons) != NEX or len(cds) != NCDS or strand not in ("+", "-"):
        return False
    if FIXFLAGS and not (strand == "+" and by_feature and with_id):
        return False
    if FIXEX and list(exons) != [(TS, TS), (TE, TE)]:
        return False
    for i, (a, b) in enumerate(exons):
        if not (1 <= a <= b <= HI):
            return False
        if i == 0 and E0 and a != E0:
            return False
        for j in range(i):
            if exons[j][0] == a:     # equal starts: 'ascending order' does not order them
                return False
    for a, b in cds:
        if not (TS <= a <= b <= TE):
            return False
    return True


def cond_bed12(exons: List[Tuple[int, int]], cds: List[Tuple[int, int]], strand: str, by_feature: bool, with_id: bool) -> bool:
    """
    pre: _bed_ok(exons, cds, strand, by_feature, with_id)
    post: _
    """
    return _check_bed12(exons, cds, strand, by_feature, with_id) is None


def reach_bed12(exons: List[Tuple[int, int]], cds: List[Tuple[int, int]], strand: str, by_feature: bool, with_id: bool) -> bool:
    """
    pre: _bed_ok(exons, cds, strand, by_feature, with_id)
    post: not _
    """
    if _check_bed12(exons, cds, strand, by_feature, with_id) is not None:
        return False
    blocks = sorted(exons) if exons else [(TS, TE)]
    return blocks[0][0] == TS and blocks[-1][1] == TE


def diag_bed12(exons, cds, strand, by_feature, with_id):
    return _check_bed12([tuple(x) for x in exons], [tuple(x) for x in cds], strand, by_feature, with_id)
