"""C16 harness, database side: children_bp and merge_all over the simsql stand-in."""
import gffutils
from gffutils import constants
from gffutils import merge_criteria as mc
from gffutils.feature import Feature

from vlib import env, hx, simsql

if hx.SYMBOLIC:
    env.install_simsql()
    env.install_jsonbox()
    env.install_fakefs()
    env.install_bins_stub()
    env.install_nocache_quoter()
    env.install_quiet_stderr()

CRIT = hx.sel("VB_CRIT", "default")
S0 = hx.bound("VB_S0", -1)       # partition: start of the first exon
CRITS = {
    "default": ((mc.seqid, mc.overlap_end_inclusive, mc.strand, mc.feature_type), lambda a, c: a[2] == c[2] and a[0] <= c[0] <= a[1] + 1),
    "nostrand": ((mc.seqid, mc.overlap_end_inclusive, mc.feature_type), lambda a, c: a[0] <= c[0] <= a[1] + 1),
}


def _connect():
    if hx.SYMBOLIC:
        simsql.reset()
        env.FS.reset()
        return simsql.Connection()
    return ":memory:"


def _db(exons):
    fs = [Feature(seqid="c", source="s", featuretype="mRNA", start=1, end=20, strand="+", attributes={"ID": ["t"]})]
    for i, (a, l, st) in enumerate(exons):
        fs.append(Feature(seqid="c", source="s", featuretype="exon", start=a, end=a + l, strand=st,
                          attributes={"ID": ["e%d" % i], "Parent": ["t"]}))
    return gffutils.create_db(fs, _connect(), dialect=constants.dialect, checklines=0)


def _runs(items, accept):
    """fold over start-ordered (start, end, strand) items: run accumulation rule of the statement"""
    runs, cur = [], None
    for it in items:
        if cur is not None and accept((cur[0], cur[1], cur[2]), it):
            cur[0], cur[1] = min(cur[0], it[0]), max(cur[1], it[1])
            cur[3].append(it)
            continue
        if cur is not None:
            runs.append(cur)
        cur = [it[0], it[1], it[2], [it]]
    if cur is not None:
        runs.append(cur)
    return runs


def _check_bp(exons, merge):
    hx.tick()
    db = _db(exons)
    items = sorted(((a, a + l, st) for a, l, st in exons), key=lambda x: x[0])
    if merge:
        want = sum(r[1] - r[0] + 1 for r in _runs(items, CRITS[CRIT][1]))
        got = db.children_bp("t", child_featuretype="exon", merge=True, merge_criteria=CRITS[CRIT][0])
    else:
        want = sum(b - a + 1 for a, b, _ in items)
        got = db.children_bp(db["t"], child_featuretype="exon")
    if got != want:
        return hx.msg("children_bp = %r, the children say %r", got, want)
    return None


STR = ("+", "-")


S1 = hx.bound("VB_S1", -1)       # partition: start of the second exon
FLAG = hx.bound("VB_FLAG", -1)   # partition: the boolean argument (merge / exclude_components)


def _ok(s0, l0, s1, l1, s2, l2, t0, t1, t2, flag=None):
    """first exon starts at 1 on '+' (translation / strand symmetry); starts strictly increasing ('order_by start'
    leaves ties unordered)"""
    if S1 >= 0 and s1 != S1:
        return False
    if FLAG >= 0 and flag is not None and flag != bool(FLAG):
        return False
    if not (s0 == 1 and 2 <= s1 <= 4 and s1 < s2 <= 6 and 0 <= l0 <= 2 and 0 <= l1 <= 1 and l2 == 0):
        return False
    return t0 == "+" and t1 in STR and t2 in STR


def _ex(s0, l0, s1, l1, s2, l2, t0, t1, t2):
    return [(s0, l0, hx.pick(t0, STR)), (s1, l1, hx.pick(t1, STR)), (s2, l2, hx.pick(t2, STR))]


def cond_bp(s0: int, l0: int, s1: int, l1: int, s2: int, l2: int, t0: str, t1: str, t2: str, merge: bool) -> bool:
    """
    pre: _ok(s0, l0, s1, l1, s2, l2, t0, t1, t2, merge)
    post: _
    """
    return _check_bp(_ex(s0, l0, s1, l1, s2, l2, t0, t1, t2), merge) is None


def reach_bp(s0: int, l0: int, s1: int, l1: int, s2: int, l2: int, t0: str, t1: str, t2: str, merge: bool) -> bool:
    """
    pre: _ok(s0, l0, s1, l1, s2, l2, t0, t1, t2, merge)
    post: not _
    """
    return _check_bp(_ex(s0, l0, s1, l1, s2, l2, t0, t1, t2), merge) is None and (not merge or s1 <= s0 + l0 + 1)


def diag_bp(s0, l0, s1, l1, s2, l2, t0, t1, t2, merge):
    return _check_bp([(s0, l0, t0), (s1, l1, t1), (s2, l2, t2)], merge)


# ---- merge_all --------------------------------------------------------------------------------------
def _check_all(exons, exclude):
    hx.tick()
    db = _db(exons)
    before = [(f.id, f.start, f.end, f.strand) for f in db.all_features()]
    res = db.merge_all(exclude_components=exclude)
    # groups in merge order: seqid, featuretype, strand, start (here: exons by strand then start; the mRNA alone)
    ex = sorted([(st, a, a + l, "e%d" % i) for i, (a, l, st) in enumerate(exons)])
    runs = []
    for st in ("+", "-"):
        items = [(a, b, st, i) for s2, a, b, i in ex if s2 == st]
        runs += _runs([(a, b, st, i) for a, b, st, i in items], lambda a, c: a[2] == c[2] and a[0] <= c[0] <= a[1] + 1)
    multi = [r for r in runs if len(r[3]) > 1]
    if len(res) != len(multi):
        return hx.msg("merge_all returned %d merged features, the runs say %d", len(res), len(multi))
    got = sorted((m.start, m.end, m.strand, sorted(c.id for c in m.children)) for m in res)
    want = sorted((r[0], r[1], r[2], sorted(i[3] for i in r[3])) for r in multi)
    if got != want:
        return hx.msg("merged features %r, the runs say %r", got, want)
    ids = [m.id for m in res]
    if len(set(ids)) != len(ids) or any(i in [b[0] for b in before] for i in ids):
        return hx.msg("merged ids %r are not fresh and distinct", ids)
    stored = [(f.id, f.start, f.end, f.strand) for f in db.all_features()]
    members = sorted(i[3] for r in multi for i in r[3])
    exp_stored = [b for b in before if not (exclude and b[0] in members)] + [(m.id, m.start, m.end, m.strand) for m in res]
    if sorted(stored) != sorted(exp_stored):
        return hx.msg("stored features after merge_all %r, expected %r", sorted(stored), sorted(exp_stored))
    for m in res:
        kids = sorted(f.id for f in db.children(m.id, level=1))
        if exclude:
            if kids:
                return "components were excluded but are still related to the merged feature"
        elif kids != sorted(c.id for c in m.children):
            return hx.msg("level-1 children of merged feature %r are %r, its members are %r", m.id, kids, sorted(c.id for c in m.children))
    return None


def cond_all(s0: int, l0: int, s1: int, l1: int, s2: int, l2: int, t0: str, t1: str, t2: str, exclude: bool) -> bool:
    """
    pre: _ok(s0, l0, s1, l1, s2, l2, t0, t1, t2, exclude)
    post: _
    """
    return _check_all(_ex(s0, l0, s1, l1, s2, l2, t0, t1, t2), exclude) is None


def reach_all(s0: int, l0: int, s1: int, l1: int, s2: int, l2: int, t0: str, t1: str, t2: str, exclude: bool) -> bool:
    """
    pre: _ok(s0, l0, s1, l1, s2, l2, t0, t1, t2, exclude)
    post: not _
    """
    return _check_all(_ex(s0, l0, s1, l1, s2, l2, t0, t1, t2), exclude) is None and (S1 > 3 or (t0 == t1 and s1 <= s0 + l0 + 1))


def diag_all(s0, l0, s1, l1, s2, l2, t0, t1, t2, exclude):
    return _check_all([(s0, l0, t0), (s1, l1, t1), (s2, l2, t2)], exclude)
