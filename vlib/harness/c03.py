"""C03 harness: GTF import infers exact gene/transcript extents and the three-level hierarchy."""
import gffutils
from gffutils import constants
from gffutils.exceptions import FeatureNotFoundError
from gffutils.feature import Feature

from vlib import env, hx, simsql

if hx.SYMBOLIC:
    env.install_simsql()
    env.install_jsonbox()
    env.install_fakefs()
    env.install_bins_stub()
    env.install_nocache_quoter()
    env.install_quiet_stderr()

DG = hx.sel("VB_DG", "0") == "1"         # disable_infer_genes
DT = hx.sel("VB_DT", "0") == "1"         # disable_infer_transcripts
L3 = hx.sel("VB_L3", "none")             # third line: none | gene | transcript | exon | cds
T2 = hx.sel("VB_T2", "")                 # partition: featuretype of the symbolic line
SUB = hx.sel("VB_SUB", "exon")           # gtf_subfeature
TYPES = ("exon", "CDS", "transcript", "gene")
_GTF = dict(constants.dialect)
_GTF.update({"fmt": "gtf", "field separator": "; ", "keyval separator": " ", "quoted GFF2 values": True, "trailing semicolon": True,
             "order": ["gene_id", "transcript_id"]})


def _line(ft, tid, gid, start, end, strand="+"):
    if ft == "gene":
        attrs = {"gene_id": [gid]}
    else:
        attrs = {"gene_id": [gid], "transcript_id": [tid]}
    return Feature(seqid="c", source="src", featuretype=ft, start=start, end=end, strand=strand, attributes=attrs, dialect=_GTF)


def _connect():
    if hx.SYMBOLIC:
        simsql.reset()
        env.FS.reset()
        return simsql.Connection()
    return ":memory:"


def _ids(it):
    return sorted(f.id for f in it)


def _check(lines):
    """lines: list of (featuretype, tid, gid, start, end)"""
    hx.tick()
    feats = [_line(*l) for l in lines]
    import warnings
    with warnings.catch_warnings():
        warnings.simplefilter("ignore")
        db = gffutils.create_db(feats, _connect(), dialect=_GTF, checklines=0, disable_infer_genes=DG, disable_infer_transcripts=DT,
                                gtf_subfeature=SUB, merge_strategy="create_unique")
    stored = list(db.all_features())
    ids = [f.id for f in stored]
    # --- keys of the input lines (default GTF id_spec)
    tids = sorted(set(l[1] for l in lines if l[0] != "gene"))
    gids = sorted(set(l[2] for l in lines))
    subs = [l for l in lines if l[0] == SUB]
    explicit_t = {l[1]: l for l in lines if l[0] == "transcript"}
    explicit_g = {l[2]: l for l in lines if l[0] == "gene"}
    # --- derived / explicit transcripts
    for t in tids:
        ex = [l for l in subs if l[1] == t]
        n_under_t = sum(1 for i in ids if i == t)
        if t in explicit_t:
            if n_under_t != 1:
                return hx.msg("%d features stored under the explicit transcript id %r", n_under_t, t)
            f = db[t]
            l = explicit_t[t]
            if (f.featuretype, f.start, f.end, f.source) != ("transcript", l[3], l[4], "src"):
                return hx.msg("explicit transcript line %r came back as %r", l, (f.featuretype, f.start, f.end, f.source))
            if any(i.startswith(t + "_") for i in ids):
                return hx.msg("a second feature was filed for the explicit transcript %r: %r", t, ids)
        elif ex and not DT:
            if n_under_t != 1:
                return hx.msg("%d features under the transcript id %r that owns exons", n_under_t, t)
            f = db[t]
            want = ("transcript", min(l[3] for l in ex), max(l[4] for l in ex), "c", "+")
            if (f.featuretype, f.start, f.end, f.seqid, f.strand) != want:
                return hx.msg("derived transcript %r is %r, its exons say %r", t, (f.featuretype, f.start, f.end, f.seqid, f.strand), want)
        elif n_under_t != 0:
            return hx.msg("a transcript feature %r exists although none should be derived", t)
    for g in gids:
        ex = [l for l in subs if l[2] == g]
        n_under_g = sum(1 for i in ids if i == g)
        if g in explicit_g:
            if n_under_g != 1:
                return hx.msg("%d features stored under the explicit gene id %r", n_under_g, g)
            f = db[g]
            l = explicit_g[g]
            if (f.featuretype, f.start, f.end, f.source) != ("gene", l[3], l[4], "src"):
                return hx.msg("explicit gene line %r came back as %r", l, (f.featuretype, f.start, f.end, f.source))
            if any(i.startswith(g + "_") for i in ids):
                return hx.msg("a second feature was filed for the explicit gene %r: %r", g, ids)
        elif ex and not DG:
            if n_under_g != 1:
                return hx.msg("%d features under the gene id %r that owns exons", n_under_g, g)
            f = db[g]
            want = ("gene", min(l[3] for l in ex), max(l[4] for l in ex), "c", "+")
            if (f.featuretype, f.start, f.end, f.seqid, f.strand) != want:
                return hx.msg("derived gene %r is %r, its exons say %r", g, (f.featuretype, f.start, f.end, f.seqid, f.strand), want)
        elif n_under_g != 0:
            return hx.msg("a gene feature %r exists although none should be derived", g)
    # --- nothing else was invented
    n_expected = len(lines) + sum(1 for t in tids if t not in explicit_t and not DT and any(l[1] == t for l in subs)) \
        + sum(1 for g in gids if g not in explicit_g and not DG and any(l[2] == g for l in subs))
    if len(stored) != n_expected:
        return hx.msg("%d features stored, expected %d (%r)", len(stored), n_expected, ids)
    # --- hierarchy: other lines are level-1 children of their transcript and level-2 children of their gene
    other = [(f, l) for f, l in zip([s for s in stored if s.source == "src"], lines) if l[0] not in ("gene", "transcript")]
    for t in tids:
        exp = sorted(f.id for f, l in other if l[1] == t)
        if _ids(db.children(t, level=1)) != exp:
            return hx.msg("children(%r, level=1) = %r, lines carrying that transcript_id: %r", t, _ids(db.children(t, level=1)), exp)
        if t in ids and any(f.id == t for f in db.children(t)) or any(f.id == t for f in db.parents(t)):
            return hx.msg("transcript %r is its own relative", t)
    for g in gids:
        exp2 = sorted(f.id for f, l in other if l[2] == g)
        if _ids(db.children(g, level=2)) != exp2:
            return hx.msg("children(%r, level=2) = %r, lines carrying that gene_id: %r", g, _ids(db.children(g, level=2)), exp2)
        exp1 = sorted(t for t in tids if t in ids and any(l[1] == t and l[2] == g for l in lines if l[0] != "gene"))
        if _ids(db.children(g, level=1)) != exp1:
            return hx.msg("children(%r, level=1) = %r, its transcripts are %r", g, _ids(db.children(g, level=1)), exp1)
        if any(f.id == g for f in db.children(g)) or any(f.id == g for f in db.parents(g)):
            return hx.msg("gene %r is its own relative", g)
    for f, l in other:
        p1 = [l[1]] if l[1] in ids else []
        if _ids(db.parents(f.id, level=1)) != p1:
            return hx.msg("parents(%r, level=1) = %r, expected %r", f.id, _ids(db.parents(f.id, level=1)), p1)
        p2 = [l[2]] if l[2] in ids else []
        if _ids(db.parents(f.id, level=2)) != p2:
            return hx.msg("parents(%r, level=2) = %r, expected %r", f.id, _ids(db.parents(f.id, level=2)), p2)
    return None


def _third():
    if L3 == "gene":
        return [("gene", "t1", "g1", 1, 9)]
    if L3 == "transcript":
        return [("transcript", "t1", "g1", 1, 9)]
    if L3 == "exon":
        return [("exon", "t1", "g1", 5, 6)]
    if L3 == "cds":
        return [("CDS", "t1", "g1", 2, 2)]
    return []


TIDS, GIDS = ("t1", "t2"), ("g1", "g2")


def _ok(e1, ft, tid, gid, s2, l2):
    if T2 and ft != T2:
        return False
    if not (e1 in (2, 5) and ft in TYPES and tid in TIDS and gid in GIDS and s2 in (1, 3) and 0 <= l2 <= 1):
        return False
    # consistent files: a transcript belongs to one gene (line 1 says t1 -> g1); at most one explicit line per id
    if ft != "gene" and tid == "t1" and gid != "g1":
        return False
    if (L3 == "transcript" and ft == "transcript" and tid == "t1") or (L3 == "gene" and ft == "gene" and gid == "g1"):
        return False
    return True


def _lines(e1, ft, tid, gid, s2, l2):
    ft, tid, gid = hx.pick(ft, TYPES), hx.pick(tid, TIDS), hx.pick(gid, GIDS)
    s2 = 1 if s2 == 1 else 3
    l2 = 0 if l2 == 0 else 1
    e1 = 2 if e1 == 2 else 5
    return [("exon", "t1", "g1", 2, e1), (ft, tid, gid, s2, s2 + l2)] + _third()


def cond_infer(e1: int, ft: str, tid: str, gid: str, s2: int, l2: int) -> bool:
    """
    pre: _ok(e1, ft, tid, gid, s2, l2)
    post: _
    """
    return _check(_lines(e1, ft, tid, gid, s2, l2)) is None


def reach_infer(e1: int, ft: str, tid: str, gid: str, s2: int, l2: int) -> bool:
    """
    pre: _ok(e1, ft, tid, gid, s2, l2)
    post: not _
    """
    return _check(_lines(e1, ft, tid, gid, s2, l2)) is None and (T2 or ft == "exon")


def diag_infer(e1, ft, tid, gid, s2, l2):
    return _check([("exon", "t1", "g1", 2, e1), (ft, tid, gid, s2, s2 + l2)] + _third())
