"""C02 harness: GFF3 hierarchy.  Real create_db (GFF importer incl. _update_relations and its temp file),
children(), parents(), iter_by_parent_childs over the simsql stand-in; Parent values are symbolic strings.

Arguments: p[i] / q[i] = first / second Parent value of feature i ("" = none).  The solver decides for
every Parent value whether it equals one of the stored ids or none of them (dangling)."""
from typing import List

import gffutils
from gffutils import constants
from gffutils.feature import Feature

from vlib import env, hx, simsql

N = hx.bound("VB_N", 3)
MAXP = hx.bound("VB_MAXP", 1)      # parents per feature
PART = hx.sel("VB_PART", "*" * 8)  # partition: per feature, first parent is '*' anything, '-' none, 'o' dangling, or an id
Q01 = hx.sel("VB_Q01", "*")        # "0": only the last feature may carry a second parent
IDS = "abcde"[:N]
TYPES = ["gene", "mRNA", "exon", "gene", "exon"][:N]

if hx.SYMBOLIC:
    env.install_simsql()
    env.install_jsonbox()
    env.install_fakefs()
    env.install_bins_stub()


def _connect():
    if hx.SYMBOLIC:
        simsql.reset()
        env.FS.reset()
        return simsql.Connection()
    return ":memory:"


def _parents(p, q):
    return [[x for x in (p[i], q[i]) if x != ""] for i in range(N)]


def _build(parents):
    feats = []
    for i in range(N):
        attrs = {"ID": [IDS[i]]}
        if parents[i]:
            attrs["Parent"] = list(parents[i])
        feats.append(Feature(seqid="s", source=".", featuretype=TYPES[i], start=10 + i, end=20 + i, strand="+",
                             attributes=attrs))
    return gffutils.create_db(feats, _connect(), dialect=constants.dialect, checklines=0)


def _resolve(parents):
    """concrete view of the graph: for each feature the list of indices of the stored features it names
    (forks once per Parent value; afterwards the oracle runs on concrete data)"""
    out = []
    for ps in parents:
        idx = []
        for v in ps:
            for j in range(N):
                if v == IDS[j]:
                    if j not in idx:
                        idx.append(j)
                    break
        out.append(idx)
    return out


def _l1(g, x):
    return [i for i in range(N) if x in g[i]]


def _l2(g, x):
    out = []
    for y in _l1(g, x):
        for z in _l1(g, y):
            if z not in out:
                out.append(z)
    return out


def _acyclic(g):
    for x in range(N):
        frontier = [x]
        for _ in range(N):
            nxt = []
            for f in frontier:
                for c in _l1(g, f):
                    if c == x:
                        return False
                    if c not in nxt:
                        nxt.append(c)
            frontier = nxt
    return True


def _args_ok(p, q):
    if len(p) != N or len(q) != N:
        return False
    for i in range(N):
        if len(p[i]) > 1 or len(q[i]) > 1:
            return False
        if MAXP < 2 and q[i] != "":
            return False
        if q[i] != "" and p[i] == "":
            return False
        if Q01 == "0" and i < N - 1 and q[i] != "":
            return False
        part = PART[i]
        if part == "-":
            if p[i] != "":
                return False
        elif part == "o":
            if p[i] == "" or p[i] in IDS:
                return False
        elif part != "*":
            if p[i] != part:
                return False
    return _acyclic(_resolve(_parents(p, q)))


def _ids(it):
    return sorted(f.id for f in it)


def _names(ix):
    return sorted(IDS[i] for i in ix)


def _check_levels(p, q):
    hx.tick()
    parents = _parents(p, q)
    g = _resolve(parents)
    db = _build(parents)
    if db.count_features_of_type() != N:
        return hx.msg("stored %s features, expected %d", db.count_features_of_type(), N)
    for xi in range(N):
        x = IDS[xi]
        e1, e2 = _l1(g, xi), _l2(g, xi)
        both = sorted(set(e1) | set(e2))
        g1, g2, gg = _ids(db.children(x, level=1)), _ids(db.children(x, level=2)), _ids(db.children(x))
        if g1 != _names(e1):
            return hx.msg("children(%s, level=1) = %s, Parent graph says %s", x, g1, _names(e1))
        if g2 != _names(e2):
            return hx.msg("children(%s, level=2) = %s, Parent graph says %s", x, g2, _names(e2))
        if gg != _names(both):
            return hx.msg("children(%s) = %s, Parent graph says %s", x, gg, _names(both))
        for lvl in (1, 2, None):
            ps = _ids(db.parents(x, level=lvl))
            exp = [y for y in range(N) if xi in (_l1(g, y) if lvl == 1 else _l2(g, y) if lvl == 2
                                                  else set(_l1(g, y)) | set(_l2(g, y)))]
            if ps != _names(exp):
                return hx.msg("parents(%s, level=%s) = %s, Parent graph says %s", x, lvl, ps, _names(exp))
    groups = list(db.iter_by_parent_childs(featuretype="gene"))
    genes = [IDS[i] for i in range(N) if TYPES[i] == "gene"]
    if [grp[0].id for grp in groups] != genes:
        return hx.msg("iter_by_parent_childs heads %s, expected %s", [grp[0].id for grp in groups], genes)
    for grp in groups:
        xi = IDS.index(grp[0].id)
        exp = _names(set(_l1(g, xi)) | set(_l2(g, xi)))
        if sorted(f.id for f in grp[1:]) != exp:
            return hx.msg("iter_by_parent_childs(%s) members %s, expected %s", grp[0].id, [f.id for f in grp[1:]], exp)
    return None


# CrossHair is markedly faster on fixed-arity str parameters than on List[str]; hence explicit variants.
def cond_levels_1(p0: str, p1: str, p2: str) -> bool:
    """
    pre: N == 3 and _args_ok([p0, p1, p2], ["", "", ""])
    post: _
    """
    return _check_levels([p0, p1, p2], ["", "", ""]) is None


def reach_levels_1(p0: str, p1: str, p2: str) -> bool:
    """
    pre: N == 3 and _args_ok([p0, p1, p2], ["", "", ""])
    post: not _
    """
    return _check_levels([p0, p1, p2], ["", "", ""]) is None


def cond_levels_2(p0: str, p1: str, p2: str, q0: str, q1: str, q2: str) -> bool:
    """
    pre: N == 3 and _args_ok([p0, p1, p2], [q0, q1, q2])
    post: _
    """
    return _check_levels([p0, p1, p2], [q0, q1, q2]) is None


def reach_levels_2(p0: str, p1: str, p2: str, q0: str, q1: str, q2: str) -> bool:
    """
    pre: N == 3 and _args_ok([p0, p1, p2], [q0, q1, q2])
    post: not _
    """
    return _check_levels([p0, p1, p2], [q0, q1, q2]) is None and q2 != "" and q2 != p2


def cond_levels4_1(p0: str, p1: str, p2: str, p3: str) -> bool:
    """
    pre: N == 4 and _args_ok([p0, p1, p2, p3], ["", "", "", ""])
    post: _
    """
    return _check_levels([p0, p1, p2, p3], ["", "", "", ""]) is None


def reach_levels4_1(p0: str, p1: str, p2: str, p3: str) -> bool:
    """
    pre: N == 4 and _args_ok([p0, p1, p2, p3], ["", "", "", ""])
    post: not _
    """
    return _check_levels([p0, p1, p2, p3], ["", "", "", ""]) is None


def diag_levels_1(p0, p1, p2):
    return _check_levels([p0, p1, p2], ["", "", ""])


def diag_levels_2(p0, p1, p2, q0, q1, q2):
    return _check_levels([p0, p1, p2], [q0, q1, q2])


def diag_levels4_1(p0, p1, p2, p3):
    return _check_levels([p0, p1, p2, p3], ["", "", "", ""])
