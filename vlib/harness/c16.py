"""C16 harness: FeatureDB.merge on symbolic intervals (CrossHair).

Positions are unbounded integers; lengths are bounded (0..L) because merge() tests
`if current_merged:` which is Feature.__len__ and needs a concrete int.  seqid / strand /
featuretype are selectors over two values each (the criteria only test them for equality).
"""
from typing import List, Tuple

from gffutils import merge_criteria as mc
from gffutils.feature import Feature

from vlib import hx

K = hx.bound("VB_K", 3)          # number of input features
L = hx.bound("VB_L", 4)          # max end-start
CRIT = hx.sel("VB_CRIT", "default")
T = hx.bound("VB_T", 2) if "thr" in CRIT or CRIT == "custom" else 0          # max threshold


# independent restatement of the shipped criteria (from their names and the docs): acc = run so far
def _spec_end_incl(a, c, t=1):
    return a[0] <= c[0] and c[0] <= a[1] + t


def _spec_start_incl(a, c, t=0):
    return a[0] - t <= c[1] + 1 and c[1] + 1 <= a[1] + 1


CRITERIA = {
    # name -> (real criteria list factory, independent spec over ((acc_start, acc_end, seqid, strand, type), (cur...)), threshold used)
    "default": (lambda t: (mc.seqid, mc.overlap_end_inclusive, mc.strand, mc.feature_type),
                lambda a, c, t: a[2] == c[2] and a[3] == c[3] and a[4] == c[4] and _spec_end_incl(a, c)),
    "end": (lambda t: [mc.overlap_end_inclusive], lambda a, c, t: _spec_end_incl(a, c)),
    "end+seqid": (lambda t: [mc.seqid, mc.overlap_end_inclusive], lambda a, c, t: a[2] == c[2] and _spec_end_incl(a, c)),
    "start": (lambda t: [mc.overlap_start_inclusive], lambda a, c, t: _spec_start_incl(a, c)),
    "any": (lambda t: [mc.overlap_any_inclusive], lambda a, c, t: _spec_end_incl(a, c) or _spec_start_incl(a, c)),
    "any+seqid+strand": (lambda t: [mc.overlap_any_inclusive, mc.seqid, mc.strand],
                         lambda a, c, t: a[2] == c[2] and a[3] == c[3] and (_spec_end_incl(a, c) or _spec_start_incl(a, c))),
    "exact": (lambda t: [mc.exact_coordinates_only], lambda a, c, t: c[0] == a[0] and c[1] == a[1]),
    "exact+type": (lambda t: [mc.exact_coordinates_only, mc.feature_type], lambda a, c, t: c[0] == a[0] and c[1] == a[1] and a[4] == c[4]),
    "end_thr": (lambda t: [mc.overlap_end_threshold(t)], lambda a, c, t: _spec_end_incl(a, c, t)),
    "start_thr": (lambda t: [mc.overlap_start_threshold(t)], lambda a, c, t: _spec_start_incl(a, c, t)),
    "any_thr": (lambda t: [mc.overlap_any_threshold(t), mc.seqid],
                lambda a, c, t: a[2] == c[2] and (_spec_start_incl(a, c, t) or _spec_end_incl(a, c, t))),
    "single": (lambda t: mc.seqid, lambda a, c, t: a[2] == c[2]),      # a bare callable, not a list
    "custom": (lambda t: [lambda acc, cur, comps: cur.start - acc.end <= t and len(comps) < 3 or cur is acc],
               None),
}


SPAN = hx.bound("VB_SPAN", 6)
MODE = hx.sel("VB_MODE", "full")   # full | geom (fields concrete, equal) | fields (geometry concrete: K copies of 5..9)


def _mk(ivs, sq, st, ft):
    if MODE == "geom":
        sq, st, ft = "a" * K, "+" * K, "x" * K
    elif MODE == "fields":
        ivs = [(5, 4)] * K
    fs = []
    for i, (s, l) in enumerate(ivs):
        # geom mode: the inputs carry auto-assigned looking ids x_1..x_K (and the database counter stands at K, see
        # _db()), so a merged id that is not strictly fresh collides with a stored input
        fid = "x_%d" % (i + 1) if MODE == "geom" else "f%d" % i
        fs.append(Feature(seqid=sq[i], source="src%d" % (i % 2), featuretype=ft[i], start=s, end=s + l,
                          strand=st[i], frame=".", bin=0, id=fid, attributes={"ID": [fid], "n": [str(i)]}))
    return fs


def _db():
    db = hx.bare_db()
    if MODE == "geom":
        db._autoincrements["x"] = K
    return db


def _snapshot(fs):
    return [(f.seqid, f.source, f.featuretype, f.start, f.end, f.score, f.strand, f.frame, f.id,
             [(k, list(v)) for k, v in f.attributes.items()]) for f in fs]


def _expected_runs(fs, thr):
    """The statement's rule: fold over the inputs; a feature joins the current run iff the criteria accept
    (run so far, feature).  Uses the independent restatement when there is one, else the real callables."""
    factory, spec = CRITERIA[CRIT]
    runs = []
    cur = None
    for i, f in enumerate(fs):
        c = (f.start, f.end, f.seqid, f.strand, f.featuretype)
        if cur is not None:
            a = (cur[1], cur[2], cur[3], cur[4], cur[5])
            if spec is not None:
                ok = spec(a, c, thr)
            else:
                ok = (f.start - cur[2] <= thr and len(cur[0]) < 3)
            if ok:
                cur[0].append(i)
                cur[1] = min(cur[1], f.start)
                cur[2] = max(cur[2], f.end)
                continue
            runs.append(cur)
        cur = [[i], f.start, f.end, f.seqid, f.strand, f.featuretype]
    if cur is not None:
        runs.append(cur)
    return runs


def _check(ivs, sq, st, ft, thr):
    hx.tick()
    fs = _mk(ivs, sq, st, ft)
    before = _snapshot(fs)
    db = _db()
    crit = CRITERIA[CRIT][0](thr)
    out = list(db.merge(fs, merge_criteria=crit))
    runs = _expected_runs(fs, thr)
    if len(out) != len(runs):
        return hx.msg("number of outputs %d, expected %d runs", len(out), len(runs))
    new_ids = []
    for o, r in zip(out, runs):
        members = r[0]
        if len(members) == 1:
            if o is not fs[members[0]]:
                return hx.msg("singleton run %s not yielded as the unchanged input object", members)
            if len(o.children) != 0:
                return "unmerged feature has children"
        else:
            if len(o.children) != len(members) or any(ch is not fs[m] for ch, m in zip(o.children, members)):
                return hx.msg("children of merged output are not exactly the run members %s", members)
            if o.start != r[1] or o.end != r[2]:
                return hx.msg("merged extent %s-%s, expected %s-%s", o.start, o.end, r[1], r[2])
            if any(o is f for f in fs):
                return "merged output is one of the inputs"
            new_ids.append(o.id)
            if o.id is None or any(o.id == f.id or [o.id] == f.attributes["ID"] for f in fs):
                return hx.msg("merged id %r not fresh", o.id)
    for i in range(len(new_ids)):
        for j in range(i + 1, len(new_ids)):
            if new_ids[i] == new_ids[j]:
                return hx.msg("two merged outputs share id %r", new_ids[i])
    if _snapshot(fs) != before:
        return "inputs were modified"
    # merging the same objects again gives the same result
    out2 = list(_db().merge(fs, merge_criteria=CRITERIA[CRIT][0](thr)))
    if [(o.start, o.end, len(o.children)) for o in out2] != [(o.start, o.end, len(o.children)) for o in out]:
        return "second merge of the same objects differs"
    return None


def _args_ok(ivs, sq, st, ft, thr):
    if not (len(ivs) == K and len(sq) == K and len(st) == K and len(ft) == K and 0 <= thr <= T):
        return False
    for i in range(K):
        if not (0 <= ivs[i][1] <= L and sq[i] in "ab" and st[i] in "+-" and ft[i] in "xy"):
            return False
        if i and ivs[i - 1][0] > ivs[i][0]:
            return False
    if CRIT == "single" and ivs[K - 1][0] - ivs[0][0] > SPAN:
        # criteria that ignore distance merge everything: the merged length must stay bounded (Feature.__len__)
        return False
    return True


def cond_merge(ivs: List[Tuple[int, int]], sq: str, st: str, ft: str, thr: int) -> bool:
    """
    pre: _args_ok(ivs, sq, st, ft, thr)
    post: _
    """
    return _check(ivs, sq, st, ft, thr) is None


def reach_merge(ivs: List[Tuple[int, int]], sq: str, st: str, ft: str, thr: int) -> bool:
    """
    pre: _args_ok(ivs, sq, st, ft, thr)
    post: not _
    """
    if _check(ivs, sq, st, ft, thr) is not None:
        return False
    fs = _mk(ivs, sq, st, ft)
    runs = _expected_runs(fs, thr)
    return any(len(r[0]) > 1 for r in runs)


def diag_merge(ivs, sq, st, ft, thr):
    ivs = [tuple(x) for x in ivs]
    return _check(ivs, sq, st, ft, thr)
