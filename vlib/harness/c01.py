"""C01 harness: import fidelity.  A 3-line file written by the writer model of vlib/harness/par.py in one
consistent dialect (skeleton from the environment) goes through the real create_db -> all_features ->
str(Feature), a reopen of the database, and a re-import of the printed lines."""
import gffutils
from gffutils import constants
from gffutils.feature import feature_from_line

from vlib import env, hx, simsql
from vlib.harness import par

if hx.SYMBOLIC:
    env.install_simsql()
    env.install_jsonbox()
    env.install_fakefs()
    env.install_quiet_stderr()

STORE = hx.sel("VB_STORE", "file")            # file | memory
STRATEGY = hx.sel("VB_STRATEGY", "error")     # error | create_unique (both keep all lines here)
SORTV = hx.sel("VB_SORTV", "0") == "1"        # sort_attribute_values
CL = hx.bound("VB_CL", -1)                    # partition: checklines
WV = ("w", "%", "b c")
_N = [0]


def _path(name):
    _N[0] += 1
    if hx.SYMBOLIC:
        return "/fake/%d_%s" % (_N[0], name)
    import os
    return os.path.join(os.environ.get("VERIF_SCRATCH", "."), "%d_%s" % (_N[0], name))


def _write(text, name):
    p = _path(name)
    if hx.SYMBOLIC:
        env.FS.files[p] = text
    else:
        with open(p, "w") as f:
            f.write(text)
    return p


def _file(v0, v1, w):
    """-> (lines, items per line).  Every line has >= 2 attributes and a two-valued Alias (so that every
    formatting choice of the dialect is observable on every line, as the statement presupposes)."""
    idk = "ID"
    # keys keep one file-wide relative order (the dialect records the first-seen key order; a line that deviates
    # from it is not "written in that dialect" and is printed in the dialect's order)
    a = [(idk, ["g1"]), ("Alias", ["a", "b1"]), ("Name", [v0])]
    b = [(idk, ["m1"]), ("Alias", ["a", "b2"]), ("Parent", ["g1"]), ("Note", [v1])]
    c = [("Alias", ["c", "b3"]), ("Parent", ["m1"]), ("zeta", [w]), ("beta", ["q"])]
    cols = [("s", "src", "gene", "1", "90", ".", "+", "."), ("s", "src", "mRNA", "2", "80", "0.5", "+", "."),
            ("s", "src", "exon", ".", ".", ".", "-", "2")]
    extras = [[], ["x1", ""], ["y1", "y2"]]      # incl. an EMPTY trailing extra column (the line ends in a tab)
    lines = []
    for cs, items, ex in zip(cols, (a, b, c), extras):
        lines.append("\t".join(list(cs) + [par.render(items)] + ex))
    return lines, [a, b, c], cols, extras


def _items(f):
    return [(k, list(f.attributes[k])) for k in f.attributes.keys()]


def _same_items(got, want):
    if SORTV:
        return [(k, sorted(v)) for k, v in got] == [(k, sorted(v)) for k, v in want]
    return got == want


def _check(v0, v1, w, checklines):
    hx.tick()
    if hx.SYMBOLIC:
        simsql.reset()
        env.FS.reset()
    v1 = par.fixlen(v1)
    lines, items, cols, extras = _file(v0, v1, w)
    text = "\n".join(lines) + "\n"
    kw = dict(checklines=checklines, keep_order=True, sort_attribute_values=SORTV, merge_strategy=STRATEGY)
    if STORE == "memory":
        dbfn = simsql.Connection() if hx.SYMBOLIC else ":memory:"
    else:
        dbfn = _path("out.db")
    db = gffutils.create_db(_write(text, "in.gff"), dbfn, **kw)
    passes = [("after import", db)]
    if STORE == "file":
        passes.append(("after reopening", gffutils.FeatureDB(dbfn, keep_order=True, sort_attribute_values=SORTV)))
    for what, d in passes:
        feats = list(d.all_features())
        if len(feats) != 3:
            return hx.msg("%s: %d features stored, the file has 3 lines", what, len(feats))
        for n, f in enumerate(feats):
            got_cols = (f.seqid, f.source, f.featuretype, "." if f.start is None else str(f.start), "." if f.end is None else str(f.end),
                        f.score, f.strand, f.frame)
            if got_cols != cols[n]:
                return hx.msg("%s: line %d columns %r, file has %r", what, n, got_cols, cols[n])
            if list(f.extra) != extras[n]:
                return hx.msg("%s: line %d extra columns %r, file has %r", what, n, f.extra, extras[n])
            if not _same_items(_items(f), items[n]):
                return hx.msg("%s: line %d attributes %r, file has %r", what, n, _items(f), items[n])
            if not SORTV and str(f) != lines[n]:
                return hx.msg("%s: line %d printed as %r, file has %r", what, n, str(f), lines[n])
    # re-import of the printed features gives an equivalent database
    printed = [str(f) for f in db.all_features()]
    db2 = gffutils.create_db("\n".join(printed) + "\n", simsql.Connection() if hx.SYMBOLIC else ":memory:", from_string=True, **kw)
    again = [str(f) for f in db2.all_features()]
    if again != printed:
        return hx.msg("re-import of the printed features prints %r, first import printed %r", again, printed)
    if [f.id for f in db2.all_features()] != [f.id for f in db.all_features()]:
        return "re-import assigns different keys"
    rel1 = sorted(tuple(r) for r in db.conn.execute("SELECT parent, child, level FROM relations ORDER BY parent, child, level"))
    rel2 = sorted(tuple(r) for r in db2.conn.execute("SELECT parent, child, level FROM relations ORDER BY parent, child, level"))
    if rel1 != rel2:
        return "re-import gives different relations"
    return None


V1 = ("!", "%", ";", "\u00e9", ",", "=", "\x01", "a b", "&", "a+b")      # finite mode: representative reserved / non-ASCII / blank-containing values
FIXW = hx.sel("VB_FIXW", "0") == "1"                                # 1: the two auxiliary values are fixed
ARB = hx.sel("VB_ARB", "0") == "1"                                  # 1: v1 is an ARBITRARY character (expensive), v0/w fixed


def _ok(v0, v1, w, checklines):
    if CL >= 0 and checklines != CL:
        return False
    if ARB:
        return v0 == "w" and w == "%" and par.value_ok(v1) and 0 <= checklines <= 3
    if FIXW and not (v0 == "w" and w == "%"):
        return False
    return v0 in WV and w in WV and v1 in V1 and par.value_ok(v0) and par.value_ok(w) and par.value_ok(v1) and 0 <= checklines <= 3


def cond_fidelity(v0: str, v1: str, w: str, checklines: int) -> bool:
    """
    pre: _ok(v0, v1, w, checklines)
    post: _
    """
    return _check(hx.pick(v0, WV), v1 if ARB else hx.pick(v1, V1), hx.pick(w, WV), checklines) is None


def reach_fidelity(v0: str, v1: str, w: str, checklines: int) -> bool:
    """
    pre: _ok(v0, v1, w, checklines)
    post: not _
    """
    return _check(hx.pick(v0, WV), v1 if ARB else hx.pick(v1, V1), hx.pick(w, WV), checklines) is None and (v1 > "z" or not ARB)


def diag_fidelity(v0, v1, w, checklines):
    return _check(v0, v1, w, checklines)
