"""C15 harness: interfeatures geometry / attributes (no database) and create_introns /
create_splice_sites (over simsql)."""
from typing import List, Tuple

from gffutils import helpers
from gffutils.feature import Feature

from vlib import env, hx, simsql

K = hx.bound("VB_K", 3)
G = hx.bound("VB_G", 3)           # max gap size (the gap feature's length is realised by `if new_feature:`)
NEWTYPE = hx.sel("VB_NEWTYPE", "")  # "" -> None (inter_A_B naming)
MODE = hx.sel("VB_MODE", "geom")

if hx.SYMBOLIC:
    env.install_bins_stub()
    env.install_jsonbox()
    env.install_simsql()
    env.install_fakefs()


def _snap(fs):
    return [(f.seqid, f.source, f.featuretype, f.start, f.end, f.score, f.strand, f.frame,
             [(k, list(v)) for k, v in f.attributes.items()]) for f in fs]


# ---------------------------------------------------------------------------------------------
# geometry: positions unbounded, gaps <= G, symbolic seqid / strand characters
# ---------------------------------------------------------------------------------------------
def _geom_ok(iv, sq, st):
    if len(iv) != K or len(sq) != K or len(st) != K:
        return False
    for i in range(K):
        if iv[i][0] > iv[i][1]:
            return False
        if i and iv[i][0] - iv[i - 1][1] > G + 1:
            return False
    return True


def _check_geom(iv, sq, st):
    hx.tick()
    fs = [Feature(seqid=sq[i], source="s", featuretype="t%d" % i, start=iv[i][0], end=iv[i][1], strand=st[i], bin=0,
                  attributes={"ID": ["f%d" % i]}) for i in range(K)]
    before = _snap(fs)
    db = hx.bare_db()
    out = list(db.interfeatures(fs, new_featuretype=NEWTYPE or None, merge_attributes=False))
    exp = []
    for i in range(K - 1):
        p, n = fs[i], fs[i + 1]
        if p.seqid == n.seqid and n.start - p.end >= 2:
            exp.append((p.seqid, p.end + 1, n.start - 1, p.strand if p.strand == n.strand else ".",
                        NEWTYPE or "inter_t%d_t%d" % (i, i + 1)))
    got = [(o.seqid, o.start, o.end, o.strand, o.featuretype) for o in out]
    if got != exp:
        return hx.msg("interfeatures gave %s, statement says %s", got, exp)
    if any(len(o.attributes) for o in out):
        return "merge_attributes=False but attributes present"
    if _snap(fs) != before:
        return "inputs modified"
    return None


def cond_geom(iv: List[Tuple[int, int]], sq: str, st: str) -> bool:
    """
    pre: _geom_ok(iv, sq, st)
    post: _
    """
    return _check_geom(iv, sq, st) is None


def reach_geom(iv: List[Tuple[int, int]], sq: str, st: str) -> bool:
    """
    pre: _geom_ok(iv, sq, st)
    post: not _
    """
    return _check_geom(iv, sq, st) is None and iv[1][0] - iv[0][1] >= 2 and sq[0] == sq[1] and st[0] != st[1]


def diag_geom(iv, sq, st):
    return _check_geom([tuple(x) for x in iv], sq, st)


# ---------------------------------------------------------------------------------------------
# attributes: fixed geometry with gaps, symbolic attribute values
# ---------------------------------------------------------------------------------------------
NUMS = ("1", "10", "2", "1.0", "9", "x")
A0 = hx.sel("VB_A0", "10")


def _union(vals, numeric):
    u = []
    for v in vals:
        if not any(v == w for w in u):
            u.append(v)
    if numeric:
        try:
            return [b for _, b in sorted((float(v), v) for v in u)]
        except ValueError:
            pass
    return sorted(u)


def _check_attrs(a0, a1, b0, b1, id0, id1, numeric, upd):
    """two neighbours: attributes {ID:[id0], k:[a0,a1], only0:[a0]} and {ID:[id1], k:[b0,b1]}"""
    hx.tick()
    f0 = Feature(seqid="c", source="s", featuretype="x", start=1, end=5, strand="+", bin=0,
                 attributes={"ID": [id0], "k": [a0, a1], "only0": [a0]})
    f1 = Feature(seqid="c", source="s", featuretype="x", start=9, end=12, strand="+", bin=0,
                 attributes={"ID": [id1], "k": [b0, b1]})
    before = _snap([f0, f1])
    db = hx.bare_db()
    out = list(db.interfeatures([f0, f1], new_featuretype="gap", merge_attributes=True, numeric_sort=numeric,
                                update_attributes={"upd": ["u"]} if upd else None))
    if len(out) != 1 or (out[0].start, out[0].end) != (6, 8):
        return hx.msg("expected one gap 6..8, got %s", [(o.start, o.end) for o in out])
    at = out[0].attributes
    ids = _union([id0, id1], numeric)
    exp = [("ID", ["-".join(ids)] if len(ids) > 1 else ids), ("k", _union([a0, a1, b0, b1], numeric)),
           ("only0", _union([a0], numeric))]
    if upd:
        exp.append(("upd", ["u"]))
    got = [(k, list(at[k])) for k in at.keys()]
    if sorted(got) != sorted(exp):
        return hx.msg("attributes %s, statement says %s", got, exp)
    if _snap([f0, f1]) != before:
        return "inputs modified"
    return None


def cond_attrs_vals(a0: str, a1: str, b0: str, upd: bool) -> bool:
    """
    pre: len(a0) == 1 and len(a1) == 1 and len(b0) == 1
    post: _
    """
    return _check_attrs(a0, a1, b0, "m", "i", "j", False, upd) is None


def reach_attrs_vals(a0: str, a1: str, b0: str, upd: bool) -> bool:
    """
    pre: len(a0) == 1 and len(a1) == 1 and len(b0) == 1
    post: not _
    """
    return _check_attrs(a0, a1, b0, "m", "i", "j", False, upd) is None and a0 != b0 and a1 == b0


def cond_attrs_ids(id0: str, id1: str) -> bool:
    """
    pre: len(id0) == 1 and len(id1) == 1 and id0 != "-" and id1 != "-"
    post: _
    """
    return _check_attrs("p", "q", "q", "r", id0, id1, False, False) is None


def reach_attrs_ids(id0: str, id1: str) -> bool:
    """
    pre: len(id0) == 1 and len(id1) == 1 and id0 != "-" and id1 != "-"
    post: not _
    """
    return _check_attrs("p", "q", "q", "r", id0, id1, False, False) is None and id0 > id1


def cond_attrs_num(a0: str, a1: str, b0: str, numeric: bool) -> bool:
    """
    pre: a0 == A0 and a1 in NUMS and b0 in NUMS
    post: _
    """
    return _check_attrs(hx.pick(a0, NUMS), hx.pick(a1, NUMS), hx.pick(b0, NUMS), "2", "i", "j", numeric, False) is None


def reach_attrs_num(a0: str, a1: str, b0: str, numeric: bool) -> bool:
    """
    pre: a0 == A0 and a1 in NUMS and b0 in NUMS
    post: not _
    """
    return _check_attrs(hx.pick(a0, NUMS), hx.pick(a1, NUMS), hx.pick(b0, NUMS), "2", "i", "j", numeric, False) is None and numeric and a1 == "9"


def diag_attrs_vals(a0, a1, b0, upd):
    return _check_attrs(a0, a1, b0, "m", "i", "j", False, upd)


def diag_attrs_ids(id0, id1):
    return _check_attrs("p", "q", "q", "r", id0, id1, False, False)


def diag_attrs_num(a0, a1, b0, numeric):
    return _check_attrs(a0, a1, b0, "2", "i", "j", numeric, False)


# ---------------------------------------------------------------------------------------------
# create_introns / create_splice_sites over the database
# ---------------------------------------------------------------------------------------------
NEX = hx.bound("VB_NEX", 3)


def _connect():
    if hx.SYMBOLIC:
        simsql.reset()
        env.FS.reset()
        return simsql.Connection()
    return ":memory:"


def _mkdb(exons, strand, order):
    import gffutils
    from gffutils import constants
    feats = [Feature(seqid="c", source="s", featuretype="gene", start=1, end=2, strand=strand, attributes={"ID": ["g"]}),
             Feature(seqid="c", source="s", featuretype="mRNA", start=1, end=2, strand=strand,
                     attributes={"ID": ["t"], "Parent": ["g"]})]
    ex = [Feature(seqid="c", source="s", featuretype="exon", start=a, end=b, strand=strand,
                  attributes={"ID": ["e%d" % i], "Parent": ["t"]}) for i, (a, b) in enumerate(exons)]
    if order:
        ex.reverse()
    return gffutils.create_db(feats + ex, _connect(), dialect=constants.dialect, checklines=0)


def _introns_ok(exons, strand):
    """exons in start order, distinct starts (the statement orders exons by start; ties are not ordered by it),
    gaps between consecutive exons <= G (the gap feature's length is realised); positions otherwise free"""
    if len(exons) != NEX or strand not in ("+", "-", "."):
        return False
    for i, (a, b) in enumerate(exons):
        if a > b or a < 1:
            return False
        if i and (exons[i - 1][0] >= a or a - exons[i - 1][1] > G + 1):
            return False
    return True


def _check_introns(exons, strand, rev):
    hx.tick()
    db = _mkdb(exons, strand, rev)
    store_before = simsql.snapshot(db.conn.work) if hx.SYMBOLIC else [str(f) for f in db.all_features()]
    srt = list(exons)
    gaps = [(srt[i][1] + 1, srt[i + 1][0] - 1) for i in range(NEX - 1) if srt[i + 1][0] - srt[i][1] >= 2]
    got = [(f.start, f.end, f.featuretype, f.strand, f.seqid) for f in db.create_introns()]
    if got != [(a, b, "intron", strand, "c") for a, b in gaps]:
        return hx.msg("create_introns %s, gaps of the start-ordered exons are %s", got, gaps)
    left5 = "five_prime_cis_splice_site" if strand == "+" else "three_prime_cis_splice_site" if strand == "-" else "splice_site"
    right3 = "three_prime_cis_splice_site" if strand == "+" else "five_prime_cis_splice_site" if strand == "-" else "splice_site"
    exp = [(a, a + 1, left5) for a, b in gaps] + [(b - 1, b, right3) for a, b in gaps]
    got = [(f.start, f.end, f.featuretype) for f in db.create_splice_sites()]
    if got != exp:
        return hx.msg("create_splice_sites %s, statement says %s", got, exp)
    store_after = simsql.snapshot(db.conn.work) if hx.SYMBOLIC else [str(f) for f in db.all_features()]
    if store_after != store_before:
        return "database changed"
    return None


def cond_introns(exons: List[Tuple[int, int]], strand: str, rev: bool) -> bool:
    """
    pre: _introns_ok(exons, strand)
    post: _
    """
    return _check_introns(exons, strand, rev) is None


def reach_introns(exons: List[Tuple[int, int]], strand: str, rev: bool) -> bool:
    """
    pre: _introns_ok(exons, strand)
    post: not _
    """
    if _check_introns(exons, strand, rev) is not None:
        return False
    srt = list(exons)
    return NEX < 2 or srt[1][0] - srt[0][1] >= 2


def diag_introns(exons, strand, rev):
    return _check_introns([tuple(x) for x in exons], strand, rev)
