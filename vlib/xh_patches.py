"""CrossHair plugin (loaded with --extra_plugin): works around a modelling defect of crosshair-tool 0.0.110.

`SequenceConcatenation.__eq__` compares its two halves with `==` against slices of the other operand; the halves
and the slices can be of different sequence flavours (list / SymbolicList / SliceView / tuple) whose `==` is
False across flavours even when both are empty, so e.g. `(v + '"')[:-1] == v` evaluates to False for a symbolic
one-character v.  gffutils' parser strips quotes with exactly that idiom (`val = val[1:-1]`).  The replacement
compares halves of different flavours element by element.  Without it every GTF-style condition yields
counterexamples that do not reproduce on the real interpreter (caught by the replay step, but inconclusive)."""
import re

from crosshair import core
from crosshair.core import deep_realize, realize
from crosshair.simplestructs import SequenceConcatenation
from crosshair.tracers import NoTracing


def _part_eq(x, y):
    with NoTracing():
        same = type(x) is type(y)
    if same:
        return x == y
    if x.__len__() != y.__len__():
        return False
    for a, b in zip(x, y):
        if a is b:
            continue
        if a != b:
            return False
    return True


def _eq(self, other):
    with NoTracing():
        if not hasattr(other, "__len__"):
            return False
        first, second = self._first, self._second
    if self.__len__() != other.__len__():
        return False
    firstlen = first.__len__()
    pe = _part_eq
    return pe(first, other[:firstlen]) and pe(second, other[firstlen:])


SequenceConcatenation.__eq__ = _eq


# ---------------------------------------------------------------------------------------------------------
# "%s"-only percent formatting without concretising string arguments.
# CrossHair realises every argument of `template % args`.  gffutils uses '"%s"' % value when printing quoted
# (GTF) values and "%s_%s" % (key, n) for generated ids, which would concretise every attribute value.  For a
# concrete template made of %s / %% only, the result is built by concatenation; string arguments stay symbolic,
# anything else is rendered as Python would (after realisation).  Other templates fall back to CrossHair's own.
def _verif_percent(self, other):
    if not isinstance(self, str):
        raise TypeError
    tmpl = realize(self)
    with NoTracing():
        pieces = re.split(r"(%s|%%)", tmpl)
        simple = all(("%" not in p) or p in ("%s", "%%") for p in pieces)
        nslots = sum(1 for p in pieces if p == "%s")
        is_tuple = type(other) is tuple
    args = other if is_tuple else (other,)
    if not simple or len(args) != nslots or (not is_tuple and hasattr(other, "keys")):
        return tmpl.__mod__(deep_realize(other))
    out = ""
    i = 0
    for p in pieces:
        if p == "%s":
            a = args[i]
            i += 1
            out = out + (a if isinstance(a, str) else str(a))
        elif p == "%%":
            out = out + "%"
        elif p:
            out = out + p
    return out


core._PATCH_REGISTRATIONS[str.__mod__] = _verif_percent
