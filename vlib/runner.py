"""Common driver: condition results, CrossHair subprocess driver, replay protocol,
known findings, evidence writer and exit-code policy (DESIGN.md section 2)."""
import ast
import concurrent.futures as cf
import hashlib
import json
import os
import re
import shutil
import subprocess
import sys
import tempfile
import time

VERIF = os.path.dirname(os.path.dirname(os.path.abspath(__file__)))
REPO = os.environ.get("VERIF_REPO", "/repo")
VENV = os.environ.get("VERIF_VENV") or os.path.join(VERIF, ".venv")
PY = os.path.join(VENV, "bin", "python")
CROSSHAIR = os.path.join(VENV, "bin", "crosshair")
GUARD = "GFFUTILS_VERIF"
EXIT_OK, EXIT_VIOLATION, EXIT_HARNESS = 0, 1, 3
NCPU = int(os.environ.get("VERIF_JOBS", str(os.cpu_count() or 4)))


def tree_sha():
    """Identity of the gffutils sources the encoding was generated from."""
    h = hashlib.sha256()
    root = os.path.join(REPO, "gffutils")
    for fn in sorted(os.listdir(root)):
        if fn.endswith(".py"):
            with open(os.path.join(root, fn), "rb") as f:
                h.update(fn.encode())
                h.update(f.read())
    return h.hexdigest()[:16]


class Cond:
    """Outcome of one condition (one CrossHair contract or one group of Engine-S VCs)."""

    def __init__(self, name, engine, bounds=None):
        self.name = name
        self.engine = engine
        self.bounds = bounds or {}
        self.outcome = "unexhausted"  # confirmed | counterexample | unexhausted | error
        self.detail = ""
        self.cex = None  # dict describing the counterexample (replayable)
        self.witness = None  # reachability witness (vacuity guard)
        self.paths = 0
        self.queries = 0
        self.solver_s = 0.0
        self.wall_s = 0.0
        self.functions = []
        self.samples = []

    def as_dict(self):
        d = dict(
            name=self.name,
            engine=self.engine,
            bounds=self.bounds,
            outcome=self.outcome,
            paths=self.paths,
            solver_queries=self.queries,
            solver_s=round(self.solver_s, 3),
            wall_s=round(self.wall_s, 2),
        )
        if self.detail:
            d["detail"] = self.detail[:600]
        if self.cex is not None:
            d["counterexample"] = self.cex
        if self.witness is not None:
            d["reach_witness"] = self.witness
        return d


# --------------------------------------------------------------------------------------
# Engine X: CrossHair subprocesses
# --------------------------------------------------------------------------------------
class XSpec:
    """One CrossHair condition: `module.func` is the contract function, `module.reach` its
    reachability twin (same precondition and body, postcondition negated)."""

    def __init__(self, name, module, func, reach=None, timeout=60, env=None, bounds=None,
                 path_timeout=None, reach_timeout=None):
        self.name = name
        self.module = module
        self.func = func
        self.reach = reach
        self.timeout = timeout
        self.env = {k: str(v) for k, v in (env or {}).items()}
        self.bounds = bounds or {}
        self.path_timeout = path_timeout or max(90, int(timeout ** 0.5) + 1)
        self.reach_timeout = reach_timeout or timeout   # the twin stops at its first witness; the budget is only an upper limit


_MSG = re.compile(r"^(?P<file>[^:\n]+):(?P<line>\d+): (?P<kind>info|error): (?P<msg>.*)$")


def _capture(*a, **k):
    return [list(a), k]


def parse_call_args(msg, func):
    """'... when calling f(1, 'x', b=True) (which returns ...)' -> ([1,'x'], {'b':True})"""
    key = "when calling %s(" % func
    i = msg.find(key)
    if i < 0:
        return None
    s = msg[i + len("when calling "):]
    # find the matching close paren of the call
    depth = 0
    instr = None
    j = 0
    start = s.index("(")
    k = start
    while k < len(s):
        ch = s[k]
        if instr:
            if ch == "\\":
                k += 1
            elif ch == instr:
                instr = None
        elif ch in "'\"":
            instr = ch
        elif ch in "([{":
            depth += 1
        elif ch in ")]}":
            depth -= 1
            if depth == 0:
                j = k
                break
        k += 1
    call = "_capture" + s[start : j + 1]
    try:
        return eval(call, {"_capture": _capture, "inf": float("inf"), "nan": float("nan")})
    except Exception:
        return None


def _run_crosshair(module, func, timeout, path_timeout, env):
    e = dict(os.environ)
    e.update(env)
    e["PYTHONPATH"] = VERIF + os.pathsep + REPO
    e["VERIF_SYMBOLIC"] = "1"
    e[GUARD] = "1"
    e["PYTHONHASHSEED"] = "0"
    cmd = [
        CROSSHAIR, "check", "--report_all", "--extra_plugin", os.path.join(VERIF, "vlib", "xh_plugin.py"),
        "--per_condition_timeout", str(timeout),
        "--per_path_timeout", str(path_timeout),
        "%s.%s" % (module, func),
    ]
    t0 = time.time()
    try:
        p = subprocess.run(cmd, env=e, cwd=VERIF, capture_output=True, text=True,
                           timeout=timeout * 8 + 600)
        out, err, rc = p.stdout, p.stderr, p.returncode
    except subprocess.TimeoutExpired as ex:
        out, err, rc = (ex.stdout or b"").decode("utf8", "replace") if isinstance(ex.stdout, bytes) else (ex.stdout or ""), "wall timeout", -9
    wall = time.time() - t0
    paths = 0
    m = re.search(r"VERIF-PATHS (\d+)", err or "")
    if m:
        paths = int(m.group(1))
    status, msg = "error", (err or "")[-800:]
    for line in (out or "").splitlines():
        mm = _MSG.match(line.strip())
        if not mm:
            continue
        text = mm.group("msg")
        if mm.group("kind") == "info":
            if text.startswith("Confirmed over all paths"):
                status, msg = "confirmed", text
            elif text.startswith("Not confirmed"):
                status, msg = "unexhausted", text
            elif text.startswith("Unable to meet precondition"):
                status, msg = "noprecondition", text
            else:
                status, msg = "unexhausted", text
        else:
            status, msg = "counterexample", text
            break
    return dict(status=status, msg=msg, wall=wall, paths=paths, rc=rc, stderr=(err or "")[-1500:])


def run_xspec(spec):
    """Runs the condition and its reachability twin; returns a Cond."""
    c = Cond(spec.name, "X:crosshair", dict(spec.bounds, per_condition_timeout_s=spec.timeout))
    t0 = time.time()
    r = _run_crosshair(spec.module, spec.func, spec.timeout, spec.path_timeout, spec.env)
    c.paths = r["paths"]
    c.solver_s = r["wall"]
    if r["status"] == "confirmed":
        c.outcome = "confirmed"
    elif r["status"] == "counterexample":
        c.outcome = "counterexample"
        c.detail = r["msg"]
        args = parse_call_args(r["msg"], spec.func)
        c.cex = dict(kind="xcall", module=spec.module, func=spec.func, env=spec.env,
                     args=args, message=r["msg"][:500])
    elif r["status"] == "noprecondition":
        c.outcome = "error"
        c.detail = "vacuous: CrossHair could not meet the precondition"
    elif r["status"] == "unexhausted":
        c.outcome = "unexhausted"
        c.detail = r["msg"]
    else:
        c.outcome = "error"
        c.detail = "crosshair rc=%s: %s" % (r["rc"], r["stderr"][-600:])
    if spec.reach and c.outcome in ("confirmed", "unexhausted"):
        rr = _run_crosshair(spec.module, spec.reach, spec.reach_timeout, spec.path_timeout, spec.env)
        c.paths += rr["paths"]
        if rr["status"] == "counterexample" and "false when calling" in rr["msg"]:
            a = parse_call_args(rr["msg"], spec.reach)
            c.witness = dict(func=spec.reach, args=a, message=rr["msg"][:300])
        elif rr["status"] == "counterexample":
            # the twin raised: the harness itself is broken on a reachable input
            c.outcome = "error"
            c.detail = "reachability twin raised: " + rr["msg"][:400]
        else:
            # twin confirmed / precondition unmeetable: the harness never reaches a non-trivial case -> vacuous (error).
            # twin ran out of budget without a witness: non-vacuity is not shown -> the condition is inconclusive,
            # not an error (and not counted as confirmed)
            c.detail = (c.detail + " | reachability twin: " + rr["status"] + " " + rr["msg"][:200]).strip()
            if rr["status"] in ("confirmed", "noprecondition"):
                c.outcome = "error"
            elif c.outcome == "confirmed":
                c.outcome = "unexhausted"
    c.wall_s = time.time() - t0
    return c


def run_xspecs(specs, jobs=None):
    jobs = jobs or NCPU
    out = [None] * len(specs)
    with cf.ThreadPoolExecutor(max_workers=jobs) as ex:
        futs = {ex.submit(run_xspec, s): i for i, s in enumerate(specs)}
        for f in cf.as_completed(futs):
            out[futs[f]] = f.result()
    return out


def real_call(module, func, args, env=None, timeout=300, extra_code=""):
    """Calls module.func(*args, **kwargs) in a fresh process with the REAL environment
    (real sqlite3, real files, real json) and returns (ok, value-or-error-text)."""
    pos, kw = args if args else ([], {})
    e = dict(os.environ)
    e.update({k: str(v) for k, v in (env or {}).items()})
    e["PYTHONPATH"] = VERIF + os.pathsep + REPO
    e["VERIF_SYMBOLIC"] = "0"
    e[GUARD] = "1"
    scratch = tempfile.mkdtemp(prefix="verif-replay-")
    e["VERIF_SCRATCH"] = scratch
    code = (
        "import json,sys,importlib\n"
        "m=importlib.import_module(%r)\n"
        "%s\n"
        "pos,kw=json.loads(sys.stdin.read())\n"
        "try:\n"
        "    r=getattr(m,%r)(*pos,**kw)\n"
        "    print('VERIF-RESULT '+json.dumps({'ok':True,'value':repr(r)}))\n"
        "except Exception as ex:\n"
        "    import traceback\n"
        "    print('VERIF-RESULT '+json.dumps({'ok':False,'value':type(ex).__name__+': '+str(ex)[:300],'tb':traceback.format_exc()[-1500:]}))\n"
    ) % (module, extra_code, func)
    try:
        p = subprocess.run([PY, "-c", code], input=json.dumps([pos, kw]), env=e, cwd=scratch,
                           capture_output=True, text=True, timeout=timeout)
    except subprocess.TimeoutExpired:
        shutil.rmtree(scratch, ignore_errors=True)
        return None, "replay timeout"
    finally:
        pass
    shutil.rmtree(scratch, ignore_errors=True)
    for line in p.stdout.splitlines():
        if line.startswith("VERIF-RESULT "):
            d = json.loads(line[len("VERIF-RESULT "):])
            return d["ok"], d["value"] + ("\n" + d.get("tb", "") if not d["ok"] else "")
    return None, "no result; stderr: " + p.stderr[-800:]


def replay_xcall(cex):
    """Replays a CrossHair counterexample on the real stack.  The harness function returns
    True iff the property held.  -> ('reproduced'|'not_reproduced'|'error', text)"""
    if cex.get("args") is None:
        return "error", "could not parse counterexample arguments: " + cex.get("message", "")
    diag = cex["func"].replace("cond_", "diag_", 1)
    ok, val = real_call(cex["module"], cex["func"], cex["args"], cex.get("env"))
    if ok is None:
        return "error", val
    if ok and val == "True":
        return "not_reproduced", "real stack: property holds for these arguments"
    # collect a human-readable diagnosis when the harness offers one
    ok2, val2 = real_call(cex["module"], diag, cex["args"], cex.get("env"))
    text = val if not ok else "harness returned %s" % val
    if ok2:
        text += " | " + val2
    return "reproduced", text


# --------------------------------------------------------------------------------------
# known findings, reporting, evidence
# --------------------------------------------------------------------------------------
def load_known(prop):
    p = os.path.join(VERIF, "known_findings.json")
    if not os.path.exists(p):
        return []
    with open(p) as f:
        return [k for k in json.load(f).get("findings", []) if k.get("property") == prop]


class Report:
    def __init__(self, prop, tier, seed, level="other"):
        self.prop = prop
        self.tier = tier
        self.seed = seed
        self.level = level
        self.conds = []
        self.violations = []  # (cond, replay_path, text)
        self.harness_errors = []
        self.known_lines = []
        self.assumptions = []
        self.stand_ins = []
        self.functions = []
        self.rule = ""
        self.explanation = ""
        self.samples = []
        self.extra = {}
        self.t0 = time.time()

    def add(self, c):
        self.conds.append(c)

    def violation(self, cond, replay_obj, text):
        d = os.path.join(VERIF, "evidence", "replays")
        os.makedirs(d, exist_ok=True)
        name = re.sub(r"[^A-Za-z0-9_.-]", "_", "%s_%s" % (self.prop, cond))[:100] + ".json"
        path = os.path.join(d, name)
        obj = dict(property=self.prop, condition=cond, tree_sha=tree_sha(), observed=text[:2000])
        obj.update(replay_obj)
        with open(path, "w") as f:
            json.dump(obj, f, indent=1, default=str)
        self.violations.append((cond, path, text))

    def finish(self):
        wall = time.time() - self.t0
        n = len(self.conds)
        confirmed = [c for c in self.conds if c.outcome == "confirmed"]
        unexh = [c for c in self.conds if c.outcome == "unexhausted"]
        errs = [c for c in self.conds if c.outcome == "error"]
        paths = sum(c.paths for c in self.conds)
        queries = sum(c.queries for c in self.conds)
        samples = list(self.samples)
        for c in self.conds:
            if c.witness is not None and len(samples) < 12:
                samples.append({"condition": c.name, "reach_witness": c.witness})
            for s in c.samples[:2]:
                if len(samples) < 24:
                    samples.append({"condition": c.name, "sample": s})
        if not samples:
            samples = [{"condition": c.name, "bounds": c.bounds} for c in self.conds[:3]] or ["none"]
        cov = dict(
            evaluations=max(1, paths + queries),
            distinct_nontrivial=len(confirmed),
            rule=self.rule or "one entry per condition; a condition is counted only if the solver/"
            "symbolic executor exhausted it (confirmed) and its reachability twin produced a witness",
            samples=samples,
            obligations=n,
            discharged=len(confirmed),
            checker_cmd="./check %s --tier %s" % (self.prop, self.tier),
            trusted_base=self.stand_ins + ["z3 5.1.0", "CrossHair 0.0.110" if any(c.engine.startswith("X") for c in self.conds) else "vlib/symx.py explorer"],
            explanation=self.explanation or "bounded symbolic execution of the real gffutils functions; SMT decides each condition within the stated bounds",
            exhaustive=(len(confirmed) == n and n > 0),
            symbolic_paths=paths,
            solver_queries=queries,
            solver_s=round(sum(c.solver_s for c in self.conds), 2),
            functions_encoded=sorted(set(self.functions) | set(f for c in self.conds for f in c.functions)),
            conditions=[c.as_dict() for c in self.conds],
            unexhausted=[c.name for c in unexh],
            harness_errors=[c.name + ": " + c.detail[:200] for c in errs] + self.harness_errors,
            known_findings_reported=self.known_lines,
            tree_sha=tree_sha(),
        )
        cov.update(self.extra)
        ev = dict(
            property_id=self.prop,
            tier=self.tier,
            seed=self.seed,
            level=self.level,
            coverage=cov,
            assumptions=self.assumptions,
            wall_s=round(wall, 2),
            violations=len(self.violations),
        )
        os.makedirs(os.path.join(VERIF, "evidence"), exist_ok=True)
        with open(os.path.join(VERIF, "evidence", self.prop + ".json"), "w") as f:
            json.dump(ev, f, indent=1, default=str)
        # ---- stdout summary and exit code
        print("== %s tier=%s: %d conditions: %d confirmed, %d unexhausted, %d harness-error, %d violation(s); "
              "%d symbolic paths, %d solver queries, %.1fs" % (self.prop, self.tier, n, len(confirmed),
                                                              len(unexh), len(errs) + len(self.harness_errors),
                                                              len(self.violations), paths, queries, wall))
        for c in unexh:
            print("INCONCLUSIVE condition=%s %s" % (c.name, c.detail[:160]))
        for line in self.known_lines:
            print(line)
        for cond, path, text in self.violations:
            print("VIOLATION property=%s replay=%s" % (self.prop, path))
            print("   condition=%s: %s" % (cond, text[:400].replace("\n", " | ")))
        if self.violations:
            return EXIT_VIOLATION
        if errs or self.harness_errors:
            for c in errs:
                print("HARNESS-ERROR condition=%s %s" % (c.name, c.detail[:400].replace("\n", " | ")))
            for h in self.harness_errors:
                print("HARNESS-ERROR %s" % h[:400])
            return EXIT_HARNESS
        return EXIT_OK


def handle_x_conditions(rep, conds, classify=None):
    """Standard treatment of CrossHair conditions: replay counterexamples on the real stack,
    sort them into violation / known finding / harness error."""
    known = [k for k in load_known(rep.prop) if k.get("status") == "known"]
    for c in conds:
        rep.add(c)
        if c.outcome != "counterexample":
            continue
        verdict, text = replay_xcall(c.cex)
        c.cex["replay"] = verdict
        c.cex["replay_text"] = text[:600]
        if verdict == "reproduced":
            tag = classify(c, text) if classify else None
            hit = [k for k in known if tag and k.get("predicate") == tag]
            if hit:
                c.outcome = "error"
                c.detail = "counterexample is an instance of known finding %s that the exclusion precondition should have filtered" % tag
            else:
                rep.violation(c.name, dict(c.cex), text)
        elif verdict == "not_reproduced":
            c.outcome = "error"
            c.detail = "counterexample does not reproduce on the real stack (encoding/stand-in at fault): %s | %s" % (
                c.cex.get("message", "")[:300], text[:200])
        else:
            c.outcome = "error"
            c.detail = "replay failed: " + text[:400]


def run_x_property(prop, tier, seed, specs, rule="", explanation="", assumptions=(), stand_ins=(), functions=(),
                   classify=None, extra_conds=(), known_replays=()):
    """Standard flow of a CrossHair-decided property."""
    rep = Report(prop, tier, seed)
    rep.rule = rule or ("one CrossHair condition per harness contract x configuration; a condition counts when CrossHair "
                        "reports 'Confirmed over all paths' and the reachability twin produced a witness")
    rep.explanation = explanation or ("Engine X: CrossHair executes the real gffutils functions on symbolic inputs "
                                      "(z3 decides every branch); exhaustion of all paths within the stated bounds = confirmed")
    rep.assumptions = list(assumptions)
    rep.stand_ins = list(stand_ins)
    rep.functions = list(functions)
    conds = run_xspecs(specs)
    handle_x_conditions(rep, conds, classify)
    for c in extra_conds:
        rep.add(c)
    # functions of /repo actually executed: measured by profiling the replay of reachability witnesses on the real stack
    measured = set()
    byname = {sp.name: sp for sp in specs}
    done = set()
    for c in conds:
        sp = byname.get(c.name)
        if sp is None or c.witness is None or c.witness.get("args") is None or (sp.module, sp.func, tuple(sorted(sp.env.items()))[:3]) in done:
            continue
        if len(done) >= 6:
            break
        done.add((sp.module, sp.func, tuple(sorted(sp.env.items()))[:3]))
        measured.update(functions_called(sp.module, sp.func, c.witness["args"], sp.env))
    if measured:
        rep.extra["functions_executed_in_witness_replays"] = sorted(measured)
        rep.functions = sorted(set(rep.functions) | measured)
    # known findings: replay the recorded input; still failing -> KNOWN-FINDING line
    for k in load_known(prop):
        if k.get("status") != "known":
            continue
        rp = k.get("replay")
        if rp:
            ok, val = real_call(rp["module"], rp["func"], (rp.get("args", []), rp.get("kwargs", {})), rp.get("env"))
            if ok and val == "True":
                rep.harness_errors.append("known finding %s no longer reproduces - move it to status=fixed" % k["key"])
            elif ok is None:
                rep.harness_errors.append("known finding %s: replay failed: %s" % (k["key"], val[:200]))
            else:
                rep.known_lines.append("KNOWN-FINDING: property=%s %s" % (prop, k["what"]))
    return rep


def functions_called(module, func, args, env=None, timeout=120):
    """names of the /repo functions executed when module.func(*args) runs on the REAL stack (measured by profiling)"""
    pos, kw = args if args else ([], {})
    e = dict(os.environ)
    e.update({k: str(v) for k, v in (env or {}).items()})
    e["PYTHONPATH"] = VERIF + os.pathsep + REPO
    e["VERIF_SYMBOLIC"] = "0"
    scratch = tempfile.mkdtemp(prefix="verif-prof-")
    e["VERIF_SCRATCH"] = scratch
    code = (
        "import json, sys, os, importlib\n"
        "seen = set()\n"
        "root = os.path.join(%r, 'gffutils') + os.sep\n"
        "def prof(frame, event, arg):\n"
        "    if event == 'call':\n"
        "        fn = frame.f_code.co_filename\n"
        "        if fn.startswith(root) and os.sep + 'test' + os.sep not in fn:\n"
        "            seen.add('gffutils.' + os.path.basename(fn)[:-3] + '.' + frame.f_code.co_qualname)\n"
        "m = importlib.import_module(%r)\n"
        "pos, kw = json.loads(sys.stdin.read())\n"
        "sys.setprofile(prof)\n"
        "try:\n"
        "    getattr(m, %r)(*pos, **kw)\n"
        "except Exception:\n"
        "    pass\n"
        "sys.setprofile(None)\n"
        "print('VERIF-FUNCS ' + json.dumps(sorted(seen)))\n"
    ) % (REPO, module, func)
    try:
        p = subprocess.run([PY, "-c", code], input=json.dumps([pos, kw]), env=e, cwd=scratch, capture_output=True, text=True, timeout=timeout)
        for line in p.stdout.splitlines():
            if line.startswith("VERIF-FUNCS "):
                return json.loads(line[len("VERIF-FUNCS "):])
    except Exception:
        pass
    finally:
        shutil.rmtree(scratch, ignore_errors=True)
    return []
