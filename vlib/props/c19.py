"""C19 - existing databases are never clobbered; read-style methods never write (Engine X over simsql/fakefs)."""
from vlib.runner import XSpec, run_x_property

PROP = "C19"
H = "vlib.harness.c19"
METHODS = ["getitem", "all_features", "features_of_type", "children", "parents", "region", "interfeatures", "create_introns",
           "merge", "children_bp", "bed12", "counts"]


def specs(tier):
    out = [XSpec("clobber[old 1-3 features (or emptied), new 1-2 features, force symbolic]", H, "cond_clobber", "reach_clobber", timeout=900,
                 bounds=dict(old_db="1-3 features, optionally all deleted again", new_input="1-2 features as objects or from_string", force="symbolic bool"))]
    for m in METHODS:
        out.append(XSpec("read-only[%s]" % m, H, "cond_readonly", "reach_readonly", timeout=900 if tier == "quick" else 3000,
                         env=dict(VB_METHOD=m, VB_BMAX=1, VB_CMAX=1, VB_DMAX=1) if tier == "quick" else dict(VB_METHOD=m),
                         bounds=dict(method=m, arguments="level/featuretype/strand/order_by/limit/flags chosen by 4 selectors + a bool (%d combinations)" % (48 if tier == "quick" else 288),
                                     database="gene -> mRNA -> 3 exons (one without ID)")))
    return out


def run(tier, seed):
    rep = run_x_property(
        PROP, tier, seed, specs(tier),
        assumptions=["'untouched' = the committed store a fresh reader sees (simsql commit/working-copy split; in replay: the real sqlite file's tables)",
                     "what real sqlite does to an existing file on connect + PRAGMA (journal mode etc.) is outside the model",
                     "read-only: every statement a read-style method issues must be a SELECT/PRAGMA and the committed store, counters, directives and dialect must be unchanged on reopen"],
        stand_ins=["simsql (statement log + committed store)", "fakefs", "jsonbox", "bins_stub", "nocache_quoter"],
        functions=["gffutils.create.create_db", "gffutils.create._DBCreator.__init__", "gffutils.create._DBCreator._init_tables",
                   "gffutils.interface.FeatureDB.__getitem__", "gffutils.interface.FeatureDB.all_features", "gffutils.interface.FeatureDB.children",
                   "gffutils.interface.FeatureDB.parents", "gffutils.interface.FeatureDB.region", "gffutils.interface.FeatureDB.interfeatures",
                   "gffutils.interface.FeatureDB.create_introns", "gffutils.interface.FeatureDB.create_splice_sites", "gffutils.interface.FeatureDB.merge",
                   "gffutils.interface.FeatureDB.children_bp", "gffutils.interface.FeatureDB.bed12", "gffutils.interface.FeatureDB.count_features_of_type"],
    )
    return rep.finish()
