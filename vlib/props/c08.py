"""C08 - lossless attribute values through print/parse; parsing never fails (Engine X)."""
import itertools

from vlib.props import _par
from vlib.runner import XSpec, run_x_property

PROP = "C08"
H = _par.H


def specs(tier):
    out = []
    # (a) totality, partitioned on the class of the first character
    slen = 3 if tier == "quick" else 4
    for first in ("empty", "0", "1", "2", "3", "4", "5", "6", "other"):
        if first == "empty":
            out.append(XSpec("total[empty string]", H, "cond_total", None, timeout=60, env=dict(VB_SLEN=0, VB_FIRST="empty"),
                             bounds=dict(string="''")))
            continue
        out.append(XSpec("total[len<=%d,first=%s]" % (slen, first), H, "cond_total", "reach_total", timeout=600 if tier == "quick" else 1800,
                         env=dict(VB_SLEN=slen, VB_FIRST=first), bounds=dict(string="any Unicode string of length <= %d" % slen,
                                                                             first_char="class %s of ;= ,\"%%tab / other" % first,
                                                                             dialect="inferred, or supplied gff3 default")))
    if tier == "thorough":
        alpha = ';= ,"%\ta1'
        for i, c1 in enumerate(';= ,"%\t'):
            for c2 in alpha:
                out.append(XSpec("total[structural alphabet,len<=5,starts %r%r]" % (c1, c2), H, "cond_total", "reach_total", timeout=1500,
                                 env=dict(VB_SLEN=5, VB_FIRST=str(i), VB_ALPHA=alpha, VB_SECOND=c2),
                                 bounds=dict(string="every string of length <= 5 over the structural alphabet %r starting %r%r" % (alpha, c1, c2))))
    # (b) supplied dialect: every gff3-style dialect (sep x trailing x repeated x quoted) and GTF-style ones
    for sep, trail, rep, quoted in itertools.product(_par.SEPS, ("0", "1"), ("0", "1"), ("0", "1")):
        env = dict(VB_FMT="gff3", VB_SEP=sep, VB_TRAIL=trail, VB_REP=rep, VB_QUOTED=quoted, VB_VLEN=1)
        name = "gff3,sep=%s,trailing=%s,repeated=%s,quoted=%s" % (_par.SEPNAME[sep], trail, rep, quoted)
        out.append(XSpec("print-parse[%s,1 arbitrary char]" % name, H, "cond_supplied1", "reach_supplied1", timeout=200, env=env,
                         bounds=dict(dialect=name, value="1 arbitrary character (any Unicode)", keys="a.b, ID")))
        if tier == "thorough":
            out.append(XSpec("print-parse[%s,2 arbitrary values]" % name, H, "cond_supplied", "reach_supplied",
                             timeout=900, env=dict(env, VB_FIXKEYS=1), bounds=dict(dialect=name, values="2 arbitrary characters", keys="a.b, ID")))
            out.append(XSpec("print-parse[%s,value<=2 chars]" % name, H, "cond_supplied1", "reach_supplied1", timeout=900,
                             env=dict(env, VB_VLEN=2), bounds=dict(dialect=name, value="1-2 arbitrary characters")))
    for sep, trail, rep in itertools.product(_par.SEPS, ("0", "1"), ("0", "1")):
        env = dict(VB_FMT="gtf", VB_SEP=sep, VB_TRAIL=trail, VB_REP=rep, VB_VLEN=1)
        name = "gtf,sep=%s,trailing=%s,repeated=%s" % (_par.SEPNAME[sep], trail, rep)
        out.append(XSpec("print-parse[%s,1 arbitrary char]" % name, H, "cond_supplied1", "reach_supplied1", timeout=200, env=env,
                         bounds=dict(dialect=name, value="1 character free of ; \" , controls and strip()-able blanks")))
    # line level
    for fmt, sep, quoted in (("gff3", "0", "0"), ("gff3", "1", "1"), ("gtf", "1", "0")):
        env = dict(VB_FMT=fmt, VB_SEP=sep, VB_QUOTED=quoted, VB_TRAIL="1" if fmt == "gtf" else "0")
        out.append(XSpec("print-parse-line[%s,sep=%s,quoted=%s]" % (fmt, _par.SEPNAME[sep], quoted), H, "cond_supplied_line", "reach_supplied_line",
                         timeout=400, env=env, bounds=dict(values="pairs from a 12-value alphabet incl. tab, newline, %, ;, =, &, comma, control, non-ASCII, quote",
                                                           extra_columns="0-2")))
    return out


def run(tier, seed):
    rep = run_x_property(
        PROP, tier, seed, specs(tier),
        assumptions=[
            "totality: urllib.parse.unquote is total on str (its contract); the stand-in decodes %XY for X in 0-7 and leaves the rest verbatim - only 'terminates, no exception, lists of str' is asserted",
            "print/parse: keys from a finite word-like alphabet incl. '.' and '-' (hashing), values arbitrary Unicode characters for gff3-style dialects, restricted as the statement says for GTF-style ones (plus no strip()-able blanks at the ends)",
            "strings longer than the bound are outside the claim",
        ],
        stand_ins=["unquote_model", "nocache_quoter", "bins_stub", "CrossHair patches vlib/xh_patches.py"],
        functions=["gffutils.parser._split_keyvals", "gffutils.parser._reconstruct", "gffutils.parser.Quoter.__missing__",
                   "gffutils.feature.Feature.__init__", "gffutils.feature.Feature.__unicode__", "gffutils.feature.feature_from_line"],
    )
    return rep.finish()
