"""C07 - parse a line / print it: byte-identical in every consistent dialect (Engine X)."""
from vlib.props import _par
from vlib.runner import XSpec, run_x_property

PROP = "C07"
H = _par.H


def specs(tier):
    out = _par.roundtrip_specs(tier, ("two", "multi", "flag", "one"), "attr-roundtrip")
    coords = [(".", "."), ("1", "25"), ("25", "1000000")] if tier == "quick" else [(a, b) for a in (".", "1", "25", "1000000") for b in (".", "1", "25", "1000000")]
    for (s, e) in coords:
        out.append(XSpec("line[start=%s,end=%s,empty attribute column]" % (s, e), H, "cond_line", "reach_line" if s == "." else None,
                         timeout=400 if tier == "quick" else 1500, env=dict(VB_LS=s, VB_LE=e, VB_LA=0),
                         bounds=dict(seqid_type_strand="3 arbitrary characters (no tab/line break/blank)", start=s, end=e,
                                     attr_column="empty", extra_columns="0-2, first arbitrary")))
    for a in ((2, 3) if tier == "quick" else (1, 2, 3, 4, 5)):
        for (s, e) in (coords[:2] if tier == "quick" else coords):
            out.append(XSpec("line[start=%s,end=%s,attr#%d,seqid arbitrary]" % (s, e, a), H, "cond_line1", "reach_line1" if s == "." else None,
                             timeout=400 if tier == "quick" else 1500, env=dict(VB_LS=s, VB_LE=e, VB_LA=a),
                             bounds=dict(seqid="arbitrary character (no tab/line break/blank)", start=s, end=e,
                                         attr_column="entry %d of the fixed list" % a, extra_columns="0-2, first arbitrary")))
    for a in ((2, 3) if tier == "quick" else (1, 2, 3, 4, 5)):
        out.append(XSpec("strict=False[attr#%d]" % a, H, "cond_loose", "reach_loose", timeout=300 if tier == "quick" else 2000,
                         env=dict(VB_LOOSE=1, VB_LA=a), bounds=dict(seqid="arbitrary non-blank character", attr_column="entry %d" % a)))
    return out


ASSUME = [
    "attribute level and line level are separated (a 9-column line with a symbolic tail costs CrossHair seconds per path): the attribute column reaches _split_keyvals untouched when it has no tab/CR/LF, which the writer model guarantees",
    "keys come from a finite word alphabet (parser._reconstruct hashes keys; the inference regex is \\w+=); values are arbitrary characters written by the dialect's writer: reserved characters percent-encoded (upper-case) for the '=' and unquoted-blank styles, none of ; \" , or controls for GTF (no escaping exists)",
    "outside the grammar, by the parser's documented heuristics: values with a leading blank (issue #198 free-text rule), unquoted values with strip()-able characters at their ends, an unescaped value wrapped in double quotes, a valueless flag as the FIRST attribute of a key=value column, GTF flags written without \"\" (the GTF form of an empty value is k \"\")",
    "coordinates are '.' or canonical decimals; an empty coordinate column prints as '.' and is outside the byte-identity claim",
    "urllib.parse.unquote is replaced by a model that decodes %XY for X in 0-7 (the writer only produces such escapes)",
]


def run(tier, seed):
    rep = run_x_property(
        PROP, tier, seed, specs(tier), assumptions=ASSUME,
        stand_ins=["unquote_model", "nocache_quoter", "bins_stub", "CrossHair patches vlib/xh_patches.py (sequence equality fix, %s formatting kept symbolic)"],
        functions=["gffutils.parser._split_keyvals", "gffutils.parser._reconstruct", "gffutils.parser.Quoter.__missing__",
                   "gffutils.feature.feature_from_line", "gffutils.feature.Feature.__init__", "gffutils.feature.Feature.__unicode__",
                   "gffutils.helpers.infer_dialect"],
    )
    return rep.finish()
