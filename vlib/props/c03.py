"""C03 - GTF import: derived gene/transcript extents and the three-level hierarchy (Engine X over simsql)."""
import itertools

from vlib.runner import XSpec, run_x_property

PROP = "C03"
H = "vlib.harness.c03"
TYPES = ("exon", "CDS", "transcript", "gene")


def specs(tier):
    out = []
    combos = []
    if tier == "quick":
        for dg, dt in ((0, 0), (1, 1)):
            for l3, t2 in itertools.product(("none", "transcript", "gene"), TYPES):
                combos.append((dg, dt, l3, t2, "exon"))
        for dg, dt in ((0, 1), (1, 0)):
            for t2 in ("exon", "transcript"):
                combos.append((dg, dt, "none", t2, "exon"))
        for t2 in ("exon", "CDS"):
            combos.append((0, 0, "cds", t2, "CDS"))      # custom gtf_subfeature: extents come from the CDS lines
    else:
        for dg, dt, l3, t2 in itertools.product((0, 1), (0, 1), ("none", "transcript", "gene", "cds", "exon"), TYPES):
            combos.append((dg, dt, l3, t2, "exon"))
        for dg, dt, t2 in itertools.product((0, 1), (0, 1), TYPES):
            combos.append((dg, dt, "cds", t2, "CDS"))
    for dg, dt, l3, t2, sub in combos:
        out.append(XSpec("infer[disable_genes=%d,disable_transcripts=%d,third line=%s,second line is %s,subfeature=%s]" % (dg, dt, l3, t2, sub),
                         H, "cond_infer", "reach_infer", timeout=900 if tier == "quick" else 2400,
                         env=dict(VB_DG=dg, VB_DT=dt, VB_L3=l3, VB_T2=t2, VB_SUB=sub),
                         bounds=dict(lines="exon(t1,g1,2..2|5) + one line of type %s with transcript_id in {t1,t2}, gene_id in {g1,g2}, start in {1,3}, length 1|2%s"
                                     % (t2, "" if l3 == "none" else " + a fixed %s line" % l3),
                                     flags="disable_infer_genes=%d, disable_infer_transcripts=%d" % (dg, dt), subfeature=sub)))
    return out


def run(tier, seed):
    rep = run_x_property(
        PROP, tier, seed, specs(tier),
        assumptions=["consistent files: a transcript_id belongs to one gene_id; at most one explicit gene/transcript line per id",
                     "ids and featuretypes from finite alphabets, coordinates from a finite window (derived features are written to a text file and re-read with int(); the counter dict hashes ids)",
                     "all lines on one seqid/strand (the statement's 'on the exons' seqid and strand' presupposes they agree)",
                     "expected keys follow the default GTF id_spec (gene -> gene_id, transcript -> transcript_id, other lines autoincrement)"],
        stand_ins=["simsql", "jsonbox", "fakefs (the importer's temp file)", "bins_stub", "nocache_quoter"],
        functions=["gffutils.create.create_db", "gffutils.create._GTFDBCreator._populate_from_lines", "gffutils.create._GTFDBCreator._update_relations",
                   "gffutils.create._DBCreator._do_merge", "gffutils.create._DBCreator._id_handler", "gffutils.interface.FeatureDB.children",
                   "gffutils.interface.FeatureDB.parents", "gffutils.interface.FeatureDB.__getitem__"],
    )
    return rep.finish()
