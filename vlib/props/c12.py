"""C12 - genomic binning.  Engine S: the real gffutils.bins.bins / Feature.calc_bin /
Feature.astuple / helpers._bin_from_dict are executed with symbolic integers; every feasible
path is enumerated by the solver and the obligations O1..O8 (DESIGN.md, C12) are decided as
verification conditions over ALL integers (no bound on the values).

The specification is written once, over an abstract result ("member(b)" for sets, an integer
term for single bins), and is evaluated both symbolically (z3 terms) and concretely (replay
of a model against the real function)."""
import importlib
import time

import z3

from vlib import symx
from vlib.runner import Cond, Report, load_known
from vlib.symx import SymInt, VC, _t

PROP = "C12"


# ---------------------------------------------------------------------------------------------
# dual-mode logic helpers (z3 terms or Python values)
# ---------------------------------------------------------------------------------------------
def _sym(*xs):
    return any(isinstance(x, z3.ExprRef) for x in xs)


def And(*xs):
    xs = [x for x in xs]
    if _sym(*xs):
        return z3.And([x if isinstance(x, z3.ExprRef) else z3.BoolVal(bool(x)) for x in xs])
    return all(xs)


def Or(*xs):
    xs = [x for x in xs]
    if _sym(*xs):
        return z3.Or([x if isinstance(x, z3.ExprRef) else z3.BoolVal(bool(x)) for x in xs])
    return any(xs)


def Not(x):
    return z3.Not(x) if _sym(x) else (not x)


def Implies(a, b):
    if _sym(a, b):
        a = a if isinstance(a, z3.ExprRef) else z3.BoolVal(bool(a))
        b = b if isinstance(b, z3.ExprRef) else z3.BoolVal(bool(b))
        return z3.Implies(a, b)
    return (not a) or b


def div(a, k):
    return a / k if _sym(a) else a // k


class Scheme:
    """The binning scheme, read from the module constants of the tree under analysis."""

    def __init__(self, B):
        self.offsets = list(B.OFFSETS)
        self.first = B.FIRST_SHIFT
        self.next = B.NEXT_SHIFT
        self.max = B.MAX_CHROM_SIZE
        self.coord = dict(B.COORD_OFFSETS)
        self.L = len(self.offsets)
        self.size = [1 << (self.first + i * self.next) for i in range(self.L)]
        self.count = [max(1, self.max // s) for s in self.size]

    # --- spec pieces (dual mode) -----------------------------------------------------------
    def in_range(self, s, e, fmt):
        return And(s >= self.coord[fmt], e >= 0, e < self.max)

    def out_of_range(self, s, e, fmt):
        return Or(s < self.coord[fmt], e < 0, e >= self.max)

    def is_bin_at(self, b, i):
        return And(b >= self.offsets[i], b < self.offsets[i] + self.count[i])

    def bin_overlaps(self, b, i, lo, hi):
        """bin id b of level i overlaps the 0-based closed interval [lo, hi]"""
        j = b - self.offsets[i]
        return And(j * self.size[i] <= hi, lo < (j + 1) * self.size[i])

    def bin_contains(self, b, i, lo, hi):
        j = b - self.offsets[i]
        return And(j * self.size[i] <= lo, hi < (j + 1) * self.size[i])

    def O2(self, r, s, e, fmt):
        lo, hi = s - self.coord[fmt], e - 1
        return Or(*[And(self.is_bin_at(r, i), self.bin_contains(r, i, lo, hi)) for i in range(self.L)])

    def O3(self, r, s, e, fmt):
        lo = s - self.coord[fmt]
        cl = []
        for i in range(self.L):
            finer_fits = Or(*[div(lo, self.size[k]) == div(e, self.size[k]) for k in range(i)]) if i else False
            cl.append(Implies(self.is_bin_at(r, i), Not(finer_fits)))
        return And(*cl)

    def O4(self, member, s, e, fmt, i, j):
        """every bin (level i, index j) overlapping the interval is in the result"""
        lo, hi = s - self.coord[fmt], e - 1
        b = self.offsets[i] + j
        return Implies(And(j >= 0, j < self.count[i], self.bin_overlaps(b, i, lo, hi)), member(b))

    def O5(self, member, s, e, fmt, b):
        lo, hi = s - self.coord[fmt], e - 1
        legit = Or(*[And(self.is_bin_at(b, i), self.bin_overlaps(b, i, lo - 1, hi + 1)) for i in range(self.L)])
        return Implies(member(b), legit)


def _vars():
    return z3.Ints("start end")


def _explore(B, fmt, one):
    s, e = _vars()
    return symx.explore(lambda a, b: B.bins(a, b, fmt=fmt, one=one), lambda: (SymInt(s), SymInt(e)))


def _result_kind(r):
    if isinstance(r, (int, SymInt)) and not isinstance(r, bool):
        return "int"
    if isinstance(r, (set, frozenset, list)):
        return "set"
    return type(r).__name__


def run(tier, seed):
    rep = Report(PROP, tier, seed)
    rep.rule = ("one verification condition per (obligation, explored path of the real bins.bins); "
                "non-trivial = the path condition is satisfiable and the VC mentions the path's result")
    rep.explanation = ("Engine S: real gffutils.bins.bins executed on z3-backed integer proxies; the solver "
                       "enumerates all feasible paths; obligations O1-O8 are SMT validity queries over unbounded "
                       "integers (loop bound = the module's constant OFFSETS list)")
    rep.assumptions = [
        "integers are mathematical (Python int); x >> k encoded as floor division by 2**k",
        "O7 is required when the interval whose bin SET is taken is within range; for an out-of-range set-side "
        "interval the property's own first sentence (out of range -> bin 1) fixes the result to {1} and the "
        "'hence' clause does not follow - the user-visible consequence is decided in C06",
        "obligations O2-O5 assume start <= end",
    ]
    rep.functions = ["gffutils.bins.bins", "gffutils.feature.Feature.__init__", "gffutils.feature.Feature.calc_bin",
                     "gffutils.feature.Feature.astuple", "gffutils.helpers._bin_from_dict"]
    B = importlib.import_module("gffutils.bins")
    F = importlib.import_module("gffutils.feature")
    H = importlib.import_module("gffutils.helpers")
    known = {k["key"]: k for k in load_known(PROP) if k.get("status") == "known"}
    symx.install(B, ("range", "set"))
    try:
        sch = Scheme(B)
        s, e = _vars()
        summaries = {}
        for fmt in sorted(sch.coord):
            # ---------------- one=True --------------------------------------------------------
            t0 = time.time()
            c = Cond("bins[%s,one=True]" % fmt, "S:symx+z3", {"start": "any int", "end": "any int", "fmt": fmt})
            try:
                paths, st = _explore(B, fmt, True)
            except symx.Unsupported as ex:
                c.outcome, c.detail = "unexhausted", "unsupported operation in the real code: %s" % ex
                rep.add(c)
                continue
            c.paths, c.queries, c.solver_s = len(paths), st["queries"], st["solver_s"]
            vcs = []
            for n, p in enumerate(paths):
                pc = symx.pc_formula(p.pc)
                if p.exc is not None:
                    vcs.append(VC("O1/path%d: no exception (%s)" % (n, type(p.exc).__name__), z3.Not(pc), [s, e]))
                    continue
                if _result_kind(p.result) != "int":
                    vcs.append(VC("O1/path%d: result is an int, got %s" % (n, _result_kind(p.result)), z3.Not(pc), [s, e]))
                    continue
                r = _t(p.result)
                valid = z3.And(s <= e, sch.in_range(s, e, fmt))
                vcs.append(VC("O2/path%d" % n, z3.Implies(z3.And(pc, valid), sch.O2(r, s, e, fmt)), [s, e]))
                vcs.append(VC("O3/path%d" % n, z3.Implies(z3.And(pc, valid), sch.O3(r, s, e, fmt)), [s, e]))
                vcs.append(VC("O6/path%d" % n, z3.Implies(z3.And(pc, sch.out_of_range(s, e, fmt)), r == 1), [s, e]))
            one_sum = symx.ite_summary([p for p in paths if p.exc is None and _result_kind(p.result) == "int"],
                                       lambda p: _t(p.result), z3.IntVal(-1))
            summaries[(fmt, True)] = one_sum
            _decide(rep, c, vcs, B, fmt, True, sch, known, t0)

            # ---------------- one=False -------------------------------------------------------
            t0 = time.time()
            c = Cond("bins[%s,one=False]" % fmt, "S:symx+z3", {"start": "any int", "end": "any int", "fmt": fmt})
            try:
                paths, st = _explore(B, fmt, False)
            except symx.Unsupported as ex:
                c.outcome, c.detail = "unexhausted", "unsupported operation in the real code: %s" % ex
                rep.add(c)
                continue
            c.paths, c.queries, c.solver_s = len(paths), st["queries"], st["solver_s"]
            vcs = []
            b, j = z3.Ints("b j")
            okpaths = []
            for n, p in enumerate(paths):
                pc = symx.pc_formula(p.pc)
                if p.exc is not None or _result_kind(p.result) != "set":
                    vcs.append(VC("O4/path%d: result is a set (got %s)" % (n, p.exc or _result_kind(p.result)), z3.Not(pc), [s, e]))
                    continue
                okpaths.append(p)
                res = list(set.__iter__(p.result)) if isinstance(p.result, set) else list(p.result)
                member = lambda x, res=res: symx.marker_members(x, res)
                valid = z3.And(s <= e, sch.in_range(s, e, fmt))
                for i in range(sch.L):
                    vcs.append(VC("O4/path%d/level%d" % (n, i),
                                  z3.Implies(z3.And(pc, valid), sch.O4(member, s, e, fmt, i, j)), [s, e, j]))
                vcs.append(VC("O5/path%d" % n, z3.Implies(z3.And(pc, valid), sch.O5(member, s, e, fmt, b)), [s, e, b]))
                vcs.append(VC("O6/path%d" % n,
                              z3.Implies(z3.And(pc, sch.out_of_range(s, e, fmt)), member(b) == (b == 1)), [s, e, b]))
            all_sum = symx.ite_summary(okpaths, lambda p: symx.marker_members(b, list(set.__iter__(p.result)) if isinstance(p.result, set) else list(p.result)), z3.BoolVal(False))
            summaries[(fmt, False)] = all_sum
            _decide(rep, c, vcs, B, fmt, False, sch, known, t0)

            # ---------------- O7: one-bin of an interval is in the bin set of any overlapping one
            if (fmt, True) in summaries and (fmt, False) in summaries:
                t0 = time.time()
                c = Cond("O7[%s]: bins_one(a) in bins_all(b) for overlapping a, b" % fmt, "S:summaries+z3",
                         {"a": "any valid interval", "b": "any valid in-range interval", "fmt": fmt})
                s2, e2 = z3.Ints("start2 end2")
                one_a = z3.substitute(summaries[(fmt, True)], (s, s2), (e, e2))
                co = sch.coord[fmt]
                overlap = z3.And(s2 - co <= e - 1, s - co <= e2 - 1)
                pre = z3.And(s <= e, s2 <= e2, sch.in_range(s, e, fmt), overlap)
                vc = VC("O7", z3.Implies(pre, z3.substitute(summaries[(fmt, False)], (b, one_a))), [s, e, s2, e2])
                c.paths = 1
                _decide(rep, c, [vc], B, fmt, "O7", sch, known, t0)

        # ---------------- O8: Feature.bin / astuple / _bin_from_dict agree with bins() ---------
        if ("gff", True) in summaries:
            t0 = time.time()
            c = Cond("O8: Feature.bin, astuple()[-1], _bin_from_dict == bins(start,end)", "S:symx+z3",
                     {"start": "any int", "end": "any int"})
            symx.install(F, ("int",))
            symx.install(H, ("int",))
            try:
                vcs = []
                tot_q = 0

                def via_init(a, bb):
                    return F.Feature(seqid="c", start=a, end=bb).bin

                def via_tuple(a, bb):
                    f = F.Feature(seqid="c", start=1, end=2)
                    f.start, f.end = a, bb
                    return f.astuple()[-1]

                def via_dict(a, bb):
                    return H._bin_from_dict({"start": str(a), "end": str(bb)})

                for nm, fn in (("Feature.bin", via_init), ("astuple", via_tuple), ("_bin_from_dict", via_dict)):
                    paths, st = symx.explore(fn, lambda: (SymInt(s), SymInt(e)))
                    c.paths += len(paths)
                    tot_q += st["queries"]
                    c.solver_s += st["solver_s"]
                    for n, p in enumerate(paths):
                        pc = symx.pc_formula(p.pc)
                        if p.exc is not None or _result_kind(p.result) != "int":
                            # on paths where bins() itself does not return an int the glue has nothing to
                            # agree with; that is O1's business
                            vcs.append(VC("O8/%s/path%d: result kind" % (nm, n),
                                          z3.Implies(pc, summaries[("gff", True)] == -1), [s, e]))
                            continue
                        vcs.append(VC("O8/%s/path%d" % (nm, n),
                                      z3.Implies(z3.And(pc, summaries[("gff", True)] != -1),
                                                 _t(p.result) == summaries[("gff", True)]), [s, e]))
                c.queries = tot_q
                _decide(rep, c, vcs, B, "gff", "O8", sch, known, t0)
            except symx.Unsupported as ex:
                c.outcome, c.detail = "unexhausted", "unsupported: %s" % ex
                rep.add(c)
            finally:
                symx.uninstall(F, ("int",))
                symx.uninstall(H, ("int",))
            # concrete corner of O8: '.' coordinates give bin None
            f = F.Feature(seqid="c", start=".", end=".")
            if f.bin is not None or H._bin_from_dict({"start": ".", "end": "."}) is not None:
                rep.violation("O8/none", dict(kind="c12", what="Feature('.', '.').bin is not None"), "bin for '.' coordinates is %r" % (f.bin,))
    finally:
        symx.uninstall(B, ("range", "set"))
    return rep.finish()


# ---------------------------------------------------------------------------------------------
def concrete_check(B, sch, fmt, which, name, model):
    """Evaluates the obligation `name` on the REAL function with the model's values.
    Returns (holds, observed-text)."""
    s, e = model.get("start"), model.get("end")
    ob = name.split("/")[0].split(":")[0]
    if which == "O7":
        s2, e2 = model["start2"], model["end2"]
        one = B.bins(s2, e2, fmt=fmt, one=True)
        allb = B.bins(s, e, fmt=fmt, one=False)
        return (one in allb), "bins(%d,%d,one=True)=%r not in bins(%d,%d,one=False)=%s" % (s2, e2, one, s, e, sorted(allb)[:8])
    if which == "O8":
        import gffutils.feature as F
        import gffutils.helpers as H
        want = B.bins(s, e, one=True)
        f2 = F.Feature(seqid="c", start=1, end=2)  # as in the symbolic harness: coordinates edited after construction
        f2.start, f2.end = s, e
        got = [F.Feature(seqid="c", start=s, end=e).bin, f2.astuple()[-1],
               H._bin_from_dict({"start": str(s), "end": str(e)})]
        return all(g == want for g in got), "bins=%r, Feature.bin/astuple/_bin_from_dict=%r" % (want, got)
    try:
        r = B.bins(s, e, fmt=fmt, one=which)
    except Exception as ex:
        return False, "bins(%r,%r,fmt=%r,one=%r) raised %s: %s" % (s, e, fmt, which, type(ex).__name__, ex)
    txt = "bins(%r,%r,fmt=%r,one=%r) = %s" % (s, e, fmt, which, (sorted(r)[:10] if isinstance(r, (set, list)) else r))
    valid = s <= e and sch.in_range(s, e, fmt)
    if which is True:
        if not isinstance(r, int) or isinstance(r, bool):
            return False, txt + " (not an int)"
        if ob == "O1":
            return True, txt
        if ob == "O2":
            return Implies(valid, sch.O2(r, s, e, fmt)), txt
        if ob == "O3":
            return Implies(valid, sch.O3(r, s, e, fmt)), txt
        if ob == "O6":
            return Implies(sch.out_of_range(s, e, fmt), r == 1), txt
    else:
        if not isinstance(r, (set, frozenset, list)):
            return False, txt + " (not a set)"
        member = lambda x: x in r
        if ob == "O4":
            if "level" in name:
                i = int(name.split("level")[1])
                return Implies(valid, sch.O4(member, s, e, fmt, i, model["j"])), txt + " level %d index %d" % (i, model["j"])
            return True, txt
        if ob == "O5":
            return Implies(valid, sch.O5(member, s, e, fmt, model["b"])), txt + " b=%d" % model["b"]
        if ob == "O6":
            return Implies(sch.out_of_range(s, e, fmt), member(model["b"]) == (model["b"] == 1)), txt + " b=%d" % model["b"]
    return True, txt


def _classify(name, fmt, which, model, sch):
    """known-finding predicates (see known_findings.json)"""
    s = model.get("start")
    if which in (True, False) and s is not None and fmt == "gff" and s == 0:
        return "bins_start_zero"
    return None


def _decide(rep, c, vcs, B, fmt, which, sch, known, t0):
    """Discharges the VCs of one condition; replays counterexamples on the real function."""
    nvalid = 0
    symx.uninstall(B, ("range", "set"))  # concrete replays use the untouched module
    try:
        for vc in vcs:
            r = vc.decide()
            c.queries += 1
            c.solver_s += vc.time
            if r == "valid" and rep.tier == "thorough":
                xc = vc.cross_check()
                rep.extra.setdefault("cross_solver", {"agree": 0, "disagree": [], "inconclusive": 0})
                votes = set(xc.values())
                if "sat" in votes:
                    rep.extra["cross_solver"]["disagree"].append((vc.name, xc))
                    c.outcome = "unexhausted"
                    c.detail += " %s: z3 5.1 says valid but %r;" % (vc.name, xc)
                    continue
                if votes == {"unsat"}:
                    rep.extra["cross_solver"]["agree"] += 1
                else:
                    rep.extra["cross_solver"]["inconclusive"] += 1
            if r == "valid":
                nvalid += 1
                continue
            if r == "unknown":
                c.outcome = "unexhausted"
                c.detail += " %s: solver unknown;" % vc.name
                continue
            holds, txt = concrete_check(B, sch, fmt, which, vc.name, vc.model)
            if holds:
                c.outcome = "error"
                c.detail += " %s: model %s does not reproduce on the real function (%s);" % (vc.name, vc.model, txt)
                continue
            tag = _classify(vc.name, fmt, which, vc.model, sch)
            if tag and tag in known:
                c.detail += " %s: known finding %s;" % (vc.name, tag)
                c.known_hit = True
                continue
            c.outcome = "counterexample"
            c.cex = dict(kind="c12", fmt=fmt, which=which, vc=vc.name, model=vc.model)
            rep.violation(c.name + "/" + vc.name, dict(c.cex), txt)
    finally:
        symx.install(B, ("range", "set"))
    if c.outcome == "unexhausted" and not c.detail and nvalid == len(vcs):
        c.outcome = "confirmed"
    elif c.outcome == "unexhausted" and getattr(c, "known_hit", False) and "unknown" not in c.detail and "does not reproduce" not in c.detail:
        # everything that is not a listed known finding was discharged
        c.outcome = "confirmed"
    c.bounds["vcs"] = len(vcs)
    c.bounds["vcs_valid"] = nvalid
    c.samples = [{"vc": v.name, "result": v.result, "solver_s": round(v.time, 4)} for v in vcs[:3]]
    c.wall_s = time.time() - t0
    rep.add(c)
