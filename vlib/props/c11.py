"""C11 - featuretype/strand filters, ordering and counts.  Engine S.

The real all_features / features_of_type / count_features_of_type / featuretypes / seqids (and
helpers.make_query behind them) are executed for every argument SHAPE with symbolic text
leaves against a recording connection.  The emitted SQL is translated to SMT and compared with
the statement over symbolic stored rows: all strings (z3 sequence theory: any length, any code
point), all integers."""
import importlib
import itertools
import time
import types

import z3

from vlib import sqlfe, sqlsmt, symx
from vlib.runner import Cond, Report, load_known
from vlib.props.c06 import rec_db
from vlib.symx import SymStr, VC

PROP = "C11"
TEXT_COLS = ["seqid", "source", "featuretype", "score", "strand", "frame", "attributes", "extra"]
INT_COLS = ["start", "end"]
ORDER_KEYS = TEXT_COLS[:3] + INT_COLS + TEXT_COLS[3:] + ["file_order", "length"]


class Shape:
    def __init__(self, api, nft, ftlist, strand, order, as_tuple, reverse):
        self.api, self.nft, self.ftlist, self.strand = api, nft, ftlist, strand
        self.order, self.as_tuple, self.reverse = order, as_tuple, reverse
        self.name = "%s|ft=%d%s|strand=%d|order_by=%s%s|reverse=%d" % (
            api, nft, "L" if ftlist else "", strand, "+".join(order) if order else "None",
            "(tuple)" if as_tuple and order else "", reverse)

    def call(self, db, q):
        kw = {}
        if self.nft == 1 and not self.ftlist:
            ft = q.fts[0]
        elif self.nft:
            ft = list(q.fts[: self.nft])
        else:
            ft = None
        if self.strand:
            kw["strand"] = q.strand
        if self.order:
            kw["order_by"] = tuple(self.order) if (self.as_tuple or len(self.order) > 1) else self.order[0]
            kw["reverse"] = self.reverse
        if self.api == "features_of_type":
            return list(db.features_of_type(ft, **kw))
        if ft is not None:
            kw["featuretype"] = ft
        return list(db.all_features(**kw))


def shapes(tier):
    out = []
    fts = [(0, False), (1, False), (1, True), (2, True), (3, True)]
    for (nft, ftl), strand in itertools.product(fts, (False, True)):
        out.append(Shape("all_features", nft, ftl, strand, (), False, False))
        if nft:
            out.append(Shape("features_of_type", nft, ftl, strand, (), False, False))
    for k in ORDER_KEYS:
        for as_tuple, rev in itertools.product((False, True), (False, True)):
            out.append(Shape("all_features", 0, False, False, (k,), as_tuple, rev))
        out.append(Shape("all_features", 2, True, False, (k,), False, False))
        out.append(Shape("features_of_type", 1, False, True, (k,), True, True))
    pairs = [("seqid", "start"), ("featuretype", "length"), ("strand", "file_order"), ("start", "end")]
    if tier in ("quick", "thorough"):   # the full shape table costs seconds: both tiers decide all shapes
        pairs = list(itertools.permutations(ORDER_KEYS, 2))
        for k in ORDER_KEYS:
            for (nft, ftl), strand, as_tuple, rev in itertools.product(fts[1:], (False, True), (False, True), (False, True)):
                out.append(Shape("features_of_type", nft, ftl, strand, (k,), as_tuple, rev))
        for tr in [("seqid", "strand", "start"), ("seqid", "featuretype", "strand", "start")]:
            out.append(Shape("all_features", 1, False, True, tr, True, False))
    for pr in pairs:
        out.append(Shape("all_features", 2, True, True, pr, True, False))
    return out


def spec_key(rowview, k):
    if k == "length":
        return rowview["end"] - rowview["start"], "int"
    if k == "file_order":
        return rowview["rowid"], "int"
    return rowview[k], ("int" if k in INT_COLS else "text")


def spec_before(v1, v2, order, reverse):
    """strict 'row1 must come before row2' by the statement: lexicographic over the requested columns,
    ascending; descending only for a single column with reverse"""
    lt = z3.BoolVal(False)
    tie = z3.BoolVal(True)
    for k in order:
        a, _ = spec_key(v1, k)
        b, _ = spec_key(v2, k)
        first = (b < a) if (reverse and len(order) == 1) else (a < b)
        lt = z3.Or(lt, z3.And(tie, first))
        tie = z3.And(tie, a == b)
    return lt


def run(tier, seed):
    rep = Report(PROP, tier, seed)
    rep.rule = ("one condition per argument shape of all_features/features_of_type (featuretype form x strand x order_by "
                "form x reverse) plus the fixed count/distinct statements; each decides a filter VC and an ordering VC "
                "over symbolic rows; non-trivial = both outcomes satisfiable")
    rep.explanation = ("Engine S: real make_query and its callers run on symbolic text proxies against a recording "
                       "connection; WHERE and ORDER BY of the emitted SQL are translated to SMT and compared with the "
                       "statement for all rows (z3 strings/ints)")
    rep.assumptions = [
        "SQLite: BINARY collation = code-point order; a single-table SELECT without ORDER BY and WHERE scans in rowid order (checked on real sqlite in replay/thorough)",
        "rows have non-NULL start/end (ordering of '.' coordinates is not pinned by the statement)",
        "reverse with several order_by columns is not specified by the statement and not checked",
        "text arguments are non-empty strings",
    ]
    rep.functions = ["gffutils.helpers.make_query", "gffutils.interface.FeatureDB.all_features",
                     "gffutils.interface.FeatureDB.features_of_type", "gffutils.interface.FeatureDB.count_features_of_type",
                     "gffutils.interface.FeatureDB.featuretypes", "gffutils.interface.FeatureDB.seqids",
                     "gffutils.interface.FeatureDB._execute"]
    rep.stand_ins = ["recording connection (captures SQL text + args)", "vlib/sqlfe.py + vlib/sqlsmt.py (SQL subset -> SMT)"]
    known = {k["key"]: k for k in load_known(PROP) if k.get("status") == "known"}
    zq = types.SimpleNamespace(strand=z3.String("q_strand"), fts=[z3.String("q_ft%d" % i) for i in range(3)])
    r1 = sqlsmt.sym_row("features", "_1", nullable=())
    r2 = sqlsmt.sym_row("features", "_2", nullable=())
    v1 = {c: r1[c].term for c in r1}
    v2 = {c: r2[c].term for c in r2}
    allvars = [zq.strand] + zq.fts + [r1[c].term for c in r1] + [r2[c].term for c in r2]
    nonempty = z3.And([z3.Length(x) > 0 for x in [zq.strand] + zq.fts])
    distinct_rows = r1["rowid"].term != r2["rowid"].term

    for sh in shapes(tier):
        t0 = time.time()
        c = Cond(sh.name, "S:symx+sql->z3", {"rows": "any two rows, any text, any ints", "args": "any non-empty text"})
        symx.reset_tokens()

        def fn():
            db = rec_db()
            sh.call(db, types.SimpleNamespace(strand=SymStr(zq.strand), fts=[SymStr(t) for t in zq.fts]))
            return db.conn.log[-1]

        try:
            paths, st = symx.explore(fn, lambda: (), assume=lambda: nonempty)
        except symx.Unsupported as ex:
            c.outcome, c.detail = "unexhausted", "unsupported operation in the real code: %s" % ex
            rep.add(c)
            continue
        c.paths, c.queries, c.solver_s = len(paths), st["queries"], st["solver_s"]
        vcs = []
        probe = None
        for n, p in enumerate(paths):
            pc = symx.pc_formula(p.pc)
            if p.exc is not None:
                vcs.append(VC("path%d: no exception (%s: %s)" % (n, type(p.exc).__name__, str(p.exc)[:100]), z3.Not(pc), allvars))
                continue
            sql, args = p.result
            try:
                ast, nparams = sqlfe.parse(sql)
                if nparams != len(args):
                    raise sqlfe.SqlUnsupported("%d placeholders but %d arguments" % (nparams, len(args)))
                if len(ast[3]) != 1 or ast[3][0][:2] != ("table", "features"):
                    raise sqlfe.SqlUnsupported("not a single-table scan of features")
                W1, k1 = sqlsmt.select_predicate(ast, {"features": r1}, args)
                W2, k2 = sqlsmt.select_predicate(ast, {"features": r2}, args)
                if not k1 and ast[4] is None:
                    # stated assumption: an unfiltered single-table scan without ORDER BY runs in rowid order
                    k1, k2 = [(r1["rowid"], False)], [(r2["rowid"], False)]
                lt, tie = sqlsmt.before(k1, k2)
            except sqlfe.SqlUnsupported as ex:
                probe = "path%d: SQL outside the modelled subset: %s" % (n, ex)
                break
            cl = []
            if sh.strand:
                cl.append(v1["strand"] == zq.strand)
            if sh.nft:
                cl.append(z3.Or([v1["featuretype"] == t for t in zq.fts[: sh.nft]]))
            spec_w = z3.And(cl) if cl else z3.BoolVal(True)
            vcs.append(VC("path%d: returned <=> matches featuretype/strand" % n, z3.Implies(pc, W1 == spec_w), allvars))
            if sh.order:
                if sh.reverse and len(sh.order) > 1:
                    continue
                sb = spec_before(v1, v2, sh.order, sh.reverse)
                # the SQL order must realise the statement's order: spec-before => sql-before; sql-before => not spec-after
                vcs.append(VC("path%d: ORDER BY realises the requested order" % n,
                              z3.Implies(z3.And(pc, distinct_rows, W1, W2), z3.And(z3.Implies(sb, lt), z3.Implies(lt, sb))), allvars))
                if k1:
                    sv = z3.Solver()
                    sv.add(pc, lt)
                    c.queries += 1
                    if str(sv.check()) != "sat":
                        probe = "vacuous: ORDER BY never orders two rows"
            else:
                if ast[5]:
                    vcs.append(VC("path%d: no ORDER BY expected" % n, z3.BoolVal(False), allvars))
                elif not sh.nft and not sh.strand and ast[4] is not None:
                    vcs.append(VC("path%d: full scan must have no WHERE" % n, z3.BoolVal(False), allvars))
        _finish(rep, c, vcs, probe, sh, known, t0)

    _fixed_statements(rep, zq, r1, v1, allvars, nonempty, known)
    return rep.finish()


def _finish(rep, c, vcs, probe, sh, known, t0):
    if probe:
        # the encoding cannot speak about this SQL: let the real stack decide on a concrete probe
        ok, txt = replay(sh, {})
        if ok is False:
            tag = classify(sh)
            if tag in known:
                c.outcome = "confirmed" if False else "unexhausted"
                c.detail = "known finding %s (%s)" % (tag, probe)
                c.known = tag
            else:
                c.outcome = "counterexample"
                c.cex = dict(kind="c11", shape=sh.name, model={}, note=probe)
                rep.violation(sh.name + "/probe", dict(c.cex), txt)
        else:
            c.outcome = "error" if "vacuous" in probe else "unexhausted"
            c.detail = probe + " | concrete probe on real sqlite: " + str(txt)[:200]
        c.wall_s = time.time() - t0
        rep.add(c)
        return
    nvalid = 0
    for nvc, vc in enumerate(vcs):
        r = vc.decide()
        c.queries += 1
        c.solver_s += vc.time
        if r == "valid" and rep.tier == "thorough" and nvc == 0:
            cs = rep.extra.setdefault("cross_solver", {"agree": 0, "disagree": [], "inconclusive": 0, "checked": 0})
            if cs["checked"] < 60:      # a sample of shapes: string VCs are slow on the older solver builds
                cs["checked"] += 1
                xc = vc.cross_check(timeout_s=20)
                if "sat" in xc.values():
                    cs["disagree"].append((sh.name, vc.name, xc))
                    c.detail += " %s: z3 5.1 says valid but %r;" % (vc.name, xc)
                    continue
                cs["agree" if set(xc.values()) == {"unsat"} else "inconclusive"] += 1
        if r == "valid":
            nvalid += 1
            continue
        if r == "unknown":
            c.detail += " %s: solver unknown;" % vc.name
            continue
        ok, txt = replay(sh, vc.model)
        if ok is None:
            c.outcome = "error"
            c.detail += " %s: replay failed: %s;" % (vc.name, txt)
        elif ok:
            c.outcome = "error"
            c.detail += " %s: model does not reproduce on real sqlite (%s) model=%s;" % (vc.name, txt, vc.model)
        else:
            c.outcome = "counterexample"
            c.cex = dict(kind="c11", shape=sh.name, vc=vc.name, model=vc.model)
            rep.violation(sh.name + "/" + vc.name, dict(c.cex), txt)
    if c.outcome == "unexhausted" and nvalid == len(vcs) and vcs:
        c.outcome = "confirmed"
    c.bounds["vcs"], c.bounds["vcs_valid"] = len(vcs), nvalid
    c.samples = [{"vc": v.name, "result": v.result} for v in vcs[:2]]
    c.wall_s = time.time() - t0
    rep.add(c)


def classify(sh):
    if sh.order == ("length",) and not sh.as_tuple:
        return "order_by_length_string"
    return None


def _fixed_statements(rep, zq, r1, v1, allvars, nonempty, known):
    """count_features_of_type / featuretypes / seqids"""
    t0 = time.time()
    c = Cond("count_features_of_type/featuretypes/seqids", "S:symx+sql->z3", {"rows": "any row"})
    symx.reset_tokens()
    vcs = []
    try:
        def run_one(fn):
            db = rec_db()
            r = fn(db)
            if hasattr(r, "__iter__") and not isinstance(r, (str, bytes)):
                list(r)
            return db.conn.log[-1]

        ft = SymStr(zq.fts[0])
        checks = [
            ("count(ft)", lambda db: db.count_features_of_type(ft), "count", v1["featuretype"] == zq.fts[0]),
            ("count(None)", lambda db: db.count_features_of_type(), "count", z3.BoolVal(True)),
            ("featuretypes", lambda db: db.featuretypes(), "distinct:featuretype", z3.BoolVal(True)),
            ("seqids", lambda db: db.seqids(), "distinct:seqid", z3.BoolVal(True)),
        ]
        for nm, fn, kind, spec in checks:
            paths, st = symx.explore(lambda fn=fn: run_one(fn), lambda: (), assume=lambda: nonempty)
            c.paths += len(paths)
            c.queries += st["queries"]
            for n, p in enumerate(paths):
                pc = symx.pc_formula(p.pc)
                if p.exc is not None:
                    vcs.append(VC("%s/path%d: no exception (%s)" % (nm, n, p.exc), z3.Not(pc), allvars))
                    continue
                sql, args = p.result
                ast, nparams = sqlfe.parse(sql)
                W, _ = sqlsmt.select_predicate(ast, {"features": r1}, args)
                vcs.append(VC("%s/path%d: counted/listed rows = matching rows" % (nm, n), z3.Implies(pc, W == spec), allvars))
                item = ast[2][0][0]
                if kind == "count":
                    ok = len(ast[2]) == 1 and item[0] == "func" and item[1] == "count" and item[2] in ([], [("star",)]) and not ast[1]
                else:
                    col = kind.split(":")[1]
                    ok = len(ast[2]) == 1 and ast[1] and item == ("col", None, col) or item == ("col", "features", col)
                vcs.append(VC("%s/path%d: select list is %s" % (nm, n, kind), z3.BoolVal(bool(ok)), allvars))
    except (sqlfe.SqlUnsupported, symx.Unsupported) as ex:
        c.outcome, c.detail = "unexhausted", "outside the modelled subset: %s" % ex
        rep.add(c)
        return
    nvalid = 0
    for vc in vcs:
        if vc.decide() == "valid":
            nvalid += 1
        else:
            ok, txt = replay_counts(vc.model)
            if ok is False:
                c.outcome = "counterexample"
                rep.violation(c.name + "/" + vc.name, dict(kind="c11counts", model=vc.model), txt)
            else:
                c.outcome = "error"
                c.detail += " %s fails symbolically but counts agree on real sqlite;" % vc.name
        c.queries += 1
        c.solver_s += vc.time
    if c.outcome == "unexhausted" and nvalid == len(vcs):
        c.outcome = "confirmed"
    c.bounds["vcs"], c.bounds["vcs_valid"] = len(vcs), nvalid
    c.wall_s = time.time() - t0
    rep.add(c)


# ---------------------------------------------------------------------------------------------
def _mk_features(model, n=2, copies=1):
    """the model's two rows; with copies > 1 they are repeated (distinct ids) so that SQLite's planner has a
    reason to use its indexes - the order of an un-ORDERed indexed scan then shows"""
    from gffutils.feature import Feature
    feats = []
    for j in range(copies):
      for i in (1, 2)[:n]:
        g = lambda k, d: model.get("fea_%s_%d" % (k, i), d)
        feats.append(Feature(seqid=g("seqid", "s%d" % i), source=g("source", "src"), featuretype=g("featuretype", "t"),
                             start=g("start", i), end=g("end", i + 3), score=g("score", "."), strand=g("strand", "+"),
                             frame=g("frame", "."), attributes={"ID": ["f%d_%d" % (i, j)]}))
    return feats


def _concrete_key(f, k):
    import gffutils.helpers as H
    if k == "length":
        return f.end - f.start
    if k == "file_order":
        return f.file_order
    if k == "attributes":
        return H._jsonify(f.attributes)
    if k == "extra":
        return H._jsonify(f.extra)
    return getattr(f, k)


def replay(sh, model):
    """the model itself, then (for ordering shapes) a neighbour of it; any failing one is a real counterexample"""
    ok, txt = _replay(sh, model, False)
    if ok and sh.order and (sh.nft or sh.strand):
        ok2, txt2 = _replay(sh, model, True)
        if ok2 is False:
            return ok2, "[neighbour of the solver model: 300 rows matching the filter, alternating featuretypes] " + txt2
    return ok, txt


def _replay(sh, model, variant):
    import gffutils
    try:
        q = types.SimpleNamespace(strand=model.get("q_strand", "+"), fts=[model.get("q_ft%d" % i, "t%d" % i) for i in range(3)])
        feats = _mk_features(model, copies=150 if sh.order else 1)
        if sh.order and variant:
            # neighbour of the model: every copy matches the filters, featuretypes alternate over the requested ones
            for j, f in enumerate(feats):
                if sh.nft:
                    # matching rows are a minority (so that the featuretype index is attractive) and interleaved
                    cyc = []
                    for t in q.fts[: sh.nft]:
                        cyc += [t, t + "_other", "zz_" + t]
                    f.featuretype = cyc[j % len(cyc)]
                if sh.strand:
                    f.strand = q.strand
        # honour the model's rowid order: the row with the smaller rowid is inserted first
        if model.get("fea_rowid_1", 1) > model.get("fea_rowid_2", 2):
            feats.reverse()
        db = gffutils.create_db(feats, ":memory:", id_spec="ID")
    except Exception as ex:
        return None, "could not build the replay database: %s: %s" % (type(ex).__name__, ex)
    try:
        got = sh.call(db, q)
    except Exception as ex:
        return False, "%s raised %s: %s" % (sh.name, type(ex).__name__, ex)
    allf = list(db.all_features())
    want = [f for f in allf if (not sh.strand or f.strand == q.strand) and (not sh.nft or f.featuretype in q.fts[: sh.nft])]
    txt = "shape %s on features %s -> %s" % (sh.name, [str(f) for f in allf][:6], [f.id for f in got][:12])
    if sorted(f.id for f in got) != sorted(f.id for f in want):
        return False, txt + " but the matching set is %s" % [f.id for f in want]
    if sh.order and not (sh.reverse and len(sh.order) > 1):
        keys = [tuple(_concrete_key(f, k) for k in sh.order) for f in got]
        exp = sorted(keys, reverse=(sh.reverse and len(sh.order) == 1))
        if keys != exp:
            return False, txt + " which is not sorted by %s (keys %s)" % (sh.order, keys)
    if not sh.order and not sh.nft and not sh.strand and [f.id for f in got] != [f.id for f in allf]:
        return False, txt + " not in input order"
    return True, txt


def replay_counts(model):
    import gffutils
    try:
        feats = _mk_features(model, 2)
        db = gffutils.create_db(feats, ":memory:", id_spec="ID")
        ft = model.get("q_ft0", "t")
        n = db.count_features_of_type(ft)
        m = len(list(db.features_of_type(ft)))
        ok = (n == m and db.count_features_of_type() == 2 and sorted(db.featuretypes()) == sorted(set(f.featuretype for f in feats))
              and sorted(db.seqids()) == sorted(set(f.seqid for f in feats)))
        return ok, "count=%s iterated=%s featuretypes=%s seqids=%s" % (n, m, list(db.featuretypes()), list(db.seqids()))
    except Exception as ex:
        return False, "raised %s: %s" % (type(ex).__name__, ex)
