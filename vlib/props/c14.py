"""C14 - directives kept in order; comments/blanks/FASTA are not features (Engine X over fakefs + simsql)."""
from vlib.runner import XSpec, run_x_property

PROP = "C14"
H = "vlib.harness.itr"
KNAMES = ["directive", "comment", "blank", "feature", "##FASTA", ">header", "###"]


def specs(tier):
    out = []
    nk = 3 if tier == "quick" else 4
    for k0 in range(len(KNAMES)):
        for fs in (0, 1):
            out.append(XSpec("directives[%d lines,first=%s,%s]" % (nk, KNAMES[k0], "from_string" if fs else "path"), H,
                             "cond_directives", "reach_directives" if k0 in (0, 3) else None, timeout=600 if tier == "quick" else 3000,
                             env=dict(VB_NK=nk, VB_K0=k0, VB_FS=fs),
                             bounds=dict(lines=nk, line_kinds=KNAMES, checklines="0..%d" % nk, input="from_string" if fs else "path",
                                         observed="DataIterator.directives, db.directives, db.directives after reopen, feature count")))
    for fs in (0, 1):
        out.append(XSpec("directives[2 lines,explicit dialect,%s]" % ("from_string" if fs else "path"), H, "cond_directives", "reach_directives",
                         timeout=400, env=dict(VB_NK=2, VB_DGIVEN=1, VB_FS=fs), bounds=dict(lines=2, dialect="supplied (no inspection window)")))
    return out


def run(tier, seed):
    rep = run_x_property(
        PROP, tier, seed, specs(tier),
        assumptions=["lines are drawn from 7 kinds (directive, comment, blank, feature, ##FASTA, >header, the bare '###' directive); every interleaving of %s lines and every checklines value is explored"
                     % ("3" if tier == "quick" else "4"),
                     "database part is checked when at least one feature line precedes the FASTA marker (create_db rejects empty input)"],
        stand_ins=["fakefs (files, temp files)", "simsql", "jsonbox", "bins_stub", "nocache_quoter"],
        functions=["gffutils.iterators._FileIterator._custom_iter", "gffutils.iterators._BaseIterator._directive_handler",
                   "gffutils.iterators._FileIterator.peek", "gffutils.iterators.DataIterator", "gffutils.create.create_db",
                   "gffutils.create._DBCreator._finalize", "gffutils.interface.FeatureDB.__init__"],
    )
    return rep.finish()
