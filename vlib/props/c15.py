"""C15 - interfeatures / create_introns / create_splice_sites (Engine X)."""
from vlib.runner import XSpec, run_x_property

PROP = "C15"
H = "vlib.harness.c15"
NUMS = ("1", "10", "2", "1.0", "9", "x")


def specs(tier):
    out = []
    k, g = (3, 3) if tier == "quick" else (4, 6)
    for nt in ("", "gap"):
        out.append(XSpec("interfeatures-geometry[k=%d,gap<=%d,new_featuretype=%s]" % (k, g, nt or "None"), H, "cond_geom", "reach_geom",
                         timeout=200 if tier == "quick" else 1500, env=dict(VB_K=k, VB_G=g, VB_NEWTYPE=nt),
                         bounds=dict(features=k, gap_size="<=%d" % g, positions="unbounded int", seqid_strand="any character")))
    out.append(XSpec("interfeatures-attributes[values]", H, "cond_attrs_vals", "reach_attrs_vals", timeout=200,
                     bounds=dict(values="3 arbitrary characters + 1 constant", keys="ID,k,only0")))
    out.append(XSpec("interfeatures-attributes[ID join]", H, "cond_attrs_ids", "reach_attrs_ids", timeout=200,
                     bounds=dict(ids="2 arbitrary characters except '-'")))
    for a0 in NUMS:
        out.append(XSpec("interfeatures-attributes[numeric_sort,a0=%s]" % a0, H, "cond_attrs_num", "reach_attrs_num", timeout=300,
                         env=dict(VB_A0=a0), bounds=dict(values="from %s" % (NUMS,), numeric_sort="symbolic bool")))
    for nex in ((1, 2) if tier == "quick" else (1, 2, 3)):
        out.append(XSpec("create_introns+splice_sites[exons=%d]" % nex, H, "cond_introns", "reach_introns",
                         timeout=400 if tier == "quick" else 3000, env=dict(VB_NEX=nex, VB_G=2 if tier == "quick" else 3),
                         bounds=dict(exons=nex, gap_size="<=%d" % (2 if tier == "quick" else 3), positions="unbounded int >= 1",
                                     strand="+ - .", insertion_order="file order or reversed")))
    return out


def run(tier, seed):
    rep = run_x_property(
        PROP, tier, seed, specs(tier),
        assumptions=[
            "gap sizes are bounded (interfeatures tests `if new_feature:` = Feature.__len__, which needs a concrete int); positions and feature lengths are unbounded",
            "featuretypes are concrete (the inter_A_B name is built with % formatting); seqid/strand are arbitrary characters",
            "attribute conditions use two neighbours with a fixed gap; values are arbitrary single characters (numeric_sort: a finite alphabet of numeric-looking strings since float() concretises)",
            "create_introns/create_splice_sites: one gene -> one mRNA -> 1-2 (thorough 3) exons with distinct starts given in file order or reversed; exon IDs present",
        ],
        stand_ins=["bins_stub", "jsonbox", "simsql (introns conditions)", "fakefs"],
        functions=["gffutils.interface.FeatureDB.interfeatures", "gffutils.helpers.merge_attributes",
                   "gffutils.interface.FeatureDB.create_introns", "gffutils.interface.FeatureDB.create_splice_sites",
                   "gffutils.interface.FeatureDB.children", "gffutils.feature.Feature.astuple"],
    )
    return rep.finish()
