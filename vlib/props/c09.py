"""C09 - dialect inference: per line, weighted vote, file level (DataIterator / FeatureDB / routing) (Engine X)."""
from vlib.props import _par
from vlib.runner import XSpec, run_x_property

PROP = "C09"
HI = "vlib.harness.itr"


def specs(tier):
    # per-line inference: the deep value bounds are C07's thorough tier (same harness); here all skeletons x 3 shapes
    out = _par.roundtrip_specs("quick", ("two", "multi") if tier == "quick" else ("two", "multi", "flag", "one"), "infer-line")
    for key in ("sep", "trail", "fmt"):
        for n in (0, 1, 2):
            if n == 0 and key != "sep":
                continue
            out.append(XSpec("vote[%d features,varying %s]" % (n, key), HI, "cond_vote", "reach_vote", timeout=300,
                             env=dict(VB_VKEY=key, VB_VN=n), bounds=dict(features=n, weights="0..3 each", varying_key=key)))
        for w0 in range(4):
            out.append(XSpec("vote[3 features,varying %s,first weight %d]" % (key, w0), HI, "cond_vote", "reach_vote" if w0 == 1 else None,
                             timeout=600, env=dict(VB_VKEY=key, VB_VN=3, VB_VW0=w0),
                             bounds=dict(features=3, weights="first %d, others 0..3" % w0, varying_key=key, values="two per key, chosen per feature")))
    for pair in ("0", "1", "2", "3"):
        for cl in range(0, 5):
            out.append(XSpec("file[pair %s,checklines=%d]" % (pair, cl), HI, "cond_file", "reach_file", timeout=600,
                             env=dict(VB_PAIR=pair, VB_FCL=cl, VB_NL=3),
                             bounds=dict(lines=3, each_line="one of two dialects (pair %s) chosen by the solver" % pair, checklines=cl,
                                         input="path or from_string", observed="DataIterator.dialect, FeatureDB.dialect, GFF3-vs-GTF import semantics")))
        out.append(XSpec("explicit-dialect[pair %s]" % pair, HI, "cond_explicit", "reach_explicit", timeout=300, env=dict(VB_PAIR=pair),
                         bounds=dict(lines=3, checklines="0..4", dialect="supplied")))
    return out


def run(tier, seed):
    rep = run_x_property(
        PROP, tier, seed, specs(tier),
        assumptions=_par_assume() + [
            "vote: 0-3 features with weights (attribute counts) 0..3; per feature one of two values for one dialect key at a time (field separator, trailing semicolon, fmt); oracle = weighted majority, ties to the value seen first, order = first-seen keys",
            "file level: 3 lines, each written in one of two dialects (four pairs incl. GTF/GFF3 mixtures with different attribute counts), every checklines in 0..4; the window is the first checklines+1 feature lines",
            "routing is observed through import semantics: inferred gene/transcript features appear iff the chosen fmt is gtf",
        ],
        stand_ins=["unquote_model", "nocache_quoter", "bins_stub", "fakefs", "simsql", "jsonbox", "CrossHair patches vlib/xh_patches.py"],
        functions=["gffutils.parser._split_keyvals", "gffutils.helpers.infer_dialect", "gffutils.helpers._choose_dialect",
                   "gffutils.iterators._BaseIterator.__init__", "gffutils.iterators._FileIterator.peek", "gffutils.iterators.DataIterator",
                   "gffutils.create.create_db", "gffutils.create._DBCreator._finalize", "gffutils.interface.FeatureDB.__init__"],
    )
    return rep.finish()


def _par_assume():
    from vlib.props.c07 import ASSUME
    return ASSUME[1:3]
