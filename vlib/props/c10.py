"""C10 - update/delete/add_relation/reopen histories against a reference model (Engine X over simsql/fakefs)."""
import itertools

from vlib.runner import XSpec, run_x_property

PROP = "C10"
H = "vlib.harness.c10"


def specs(tier):
    out = []
    strategies = ("create_unique",) if tier == "quick" else ("create_unique", "merge", "replace", "warning", "error")
    firsts = [("update", a, b) for a in range(3) for b in range(3)] + [("delete", -1, -1)] + [("relate", a, -1) for a in range(3)] + [("reopen", -1, -1)]
    seconds = ("update", "delete", "relate", "reopen")
    for st in strategies:
        for (k1, a1, b1), k2 in itertools.product(firsts, seconds):
            if (k1, k2) == ("reopen", "reopen"):
                continue
            if tier == "quick":
                # the quick tier keeps the pairs whose second step depends on what the first left behind
                if k1 == "update" and (a1 == 1 or b1 == 1):
                    continue
                if k1 != "update" and k2 != "update":
                    continue
                if k1 == "relate" and a1 == 1:
                    continue
            out.append(XSpec("history[%s,%s%s%s -> %s]" % (st, k1, "" if a1 < 0 else "#%d" % a1, "" if b1 < 0 else ".%d" % b1, k2), H,
                             "cond_history", "reach_history",
                             timeout=900 if tier == "quick" else 2400, env=dict(VB_STRATEGY=st, VB_K1=k1, VB_K2=k2, VB_A1=a1, VB_B1=b1),
                             bounds=dict(depth=2, strategy=st, first_step=k1, second_step=k2,
                                         operands="update: ID none/n1/exon_1 x Parent none/m/zz(dangling); delete: m/exon_1/zz; add_relation: 6 triples; reopen",
                                         then="final reopen + an ID-less probe update (keys never recycle)")))
        for a1 in (0, 1):
            out.append(XSpec("history[%s,all initial ids explicit,update#%d -> update]" % (st, a1), H, "cond_history", "reach_history",
                             timeout=900, env=dict(VB_STRATEGY=st, VB_K1="update", VB_K2="update", VB_A1=a1, VB_INIT="explicit", VB_B1=0 if tier == "quick" else -1),
                             bounds=dict(depth=2, initial="no auto-generated key yet (empty counter table)", steps="two updates on the same handle")))
        out.append(XSpec("history[%s,failing update source]" % st, H, "cond_history", "reach_history", timeout=600,
                         env=dict(VB_STRATEGY=st, VB_K1="failing_update", VB_K2="reopen"),
                         bounds=dict(depth=1, fault="the feature source raises after 0-2 features", checked=".bak equals the pre-operation database; the failure propagates")))
    return out


def run(tier, seed):
    rep = run_x_property(
        PROP, tier, seed, specs(tier),
        assumptions=["initial database: two genes, an mRNA and an ID-less exon (file store); histories of depth 2 over {update, delete, add_relation, reopen} with symbolic operands from small alphabets, followed by a reopen and an ID-less probe update",
                     "reference model: features in order, relation triples with level 2 = composition of two level-1 edges after every import pass, per-base counters that only grow and skip taken keys; delete removes the feature and every relation naming it and nothing else",
                     "add_relation is exercised for existing features and new triples only; after an operation that raises only the .bak file is specified",
                     "quick tier: merge_strategy=create_unique; thorough: all five strategies",
                     "sqlite's file locking after a failed update (a second connection left open) is outside the model"],
        stand_ins=["simsql (committed store shared between connections)", "fakefs (shutil.copy2 snapshots the committed store)", "jsonbox", "bins_stub", "nocache_quoter"],
        functions=["gffutils.interface.FeatureDB.update", "gffutils.interface.FeatureDB.delete", "gffutils.interface.FeatureDB.add_relation",
                   "gffutils.interface.FeatureDB.__init__", "gffutils.create._GFFDBCreator._populate_from_lines", "gffutils.create._GFFDBCreator._update_relations",
                   "gffutils.create._DBCreator._finalize", "gffutils.create._DBCreator._do_merge", "gffutils.create._DBCreator._id_handler"],
    )
    return rep.finish()
