"""C17 - Attributes container, merge_attributes, equality/hash, stored JSON form (Engine X)."""
from vlib.runner import XSpec, run_x_property

PROP = "C17"
H = "vlib.harness.c17"
NUMS = ("1", "10", "2", "2.0", "x")


def specs(tier):
    t = 200 if tier == "quick" else 900
    out = [
        XSpec("values-are-sequences[set via mapping/Feature/update; scalar, list, tuple]", H, "cond_wrap", "reach_wrap", timeout=t,
              bounds=dict(scalar="any string <=2 chars", list="<=2 items of <=1 char", always_return_list="both settings")),
        XSpec("merge_attributes[dict and Attributes arguments]", H, "cond_merge", "reach_merge", timeout=t,
              bounds=dict(values="4 arbitrary strings <=1 char", keys="k (both), j, m")),
        XSpec("equality[seqid/value/start/id]", H, "cond_eq", "reach_eq", timeout=t,
              bounds=dict(seqid="any string <=1 char", value="from ('p','%',';')", ids="none/same/different")),
        XSpec("equality[extra columns]", H, "cond_eq_extra", "reach_eq_extra", timeout=t,
              bounds=dict(extra="any string <=1 char each", value="any string <=1 char")),
        XSpec("equal-features-hash-alike", H, "cond_hash", "reach_hash", timeout=t,
              bounds=dict(seqid="a|b", value="p|%|;", ids="none/same/different")),
        XSpec("json-form[jsonbox contract]", H, "cond_json", "reach_json", timeout=t, env=dict(VB_JSON="box"),
              bounds=dict(keys="2 arbitrary distinct characters", values="<=2 / <=1 / <=1 arbitrary chars + an empty list")),
    ]
    for a0 in NUMS:
        out.append(XSpec("merge_attributes[numeric_sort,a0=%s]" % a0, H, "cond_merge_num", "reach_merge_num", timeout=t,
                         env=dict(VB_A0=a0), bounds=dict(values="from %s" % (NUMS,), numeric_sort="symbolic bool")))
    return out


def run(tier, seed):
    rep = run_x_property(
        PROP, tier, seed, specs(tier),
        assumptions=[
            "features come from feature_from_line (Attributes mapping), as the statement says ('obtained by parsing or from a database')",
            "JSON clause: decided under the json contract loads(dumps(x)) == x with key order kept (vlib/env.py jsonbox replaces the simplejson MODULE inside gffutils.helpers; the repository's _jsonify/_unjsonify code itself runs); simplejson's own text encoding is third-party C code and outside the claim",
            "numeric_sort uses a finite alphabet of numeric-looking strings (float() is a C boundary); hash() conditions use finite alphabets (hashing concretises)",
        ],
        stand_ins=["jsonbox (json module inside gffutils.helpers)", "nocache_quoter", "bins_stub"],
        functions=["gffutils.attributes.Attributes.__setitem__", "gffutils.attributes.Attributes.__getitem__",
                   "gffutils.attributes.Attributes.update", "gffutils.feature.Feature.__setitem__", "gffutils.helpers.merge_attributes",
                   "gffutils.feature.Feature.__eq__", "gffutils.feature.Feature.__ne__", "gffutils.feature.Feature.__hash__",
                   "gffutils.helpers._jsonify", "gffutils.helpers._unjsonify", "gffutils.feature.Feature.__init__",
                   "gffutils.feature.feature_from_line"],
    )
    return rep.finish()
