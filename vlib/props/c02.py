"""C02 - GFF3 hierarchy.  Engine X (graph construction and level semantics over simsql) +
Engine S (argument shapes of children()/parents(): level, featuretype, order_by -> SQL -> SMT)."""
import importlib
import itertools
import time
import types

import z3

from vlib import sqlfe, sqlsmt, symx
from vlib.props.c06 import rec_db
from vlib.runner import Cond, XSpec, run_x_property
from vlib.symx import SymInt, SymStr, VC

PROP = "C02"
STAND_INS = ["simsql (sqlite3 stand-in)", "jsonbox (opaque JSON handles)", "fakefs (temp file of _update_relations)",
             "bins_stub (bin column irrelevant here; decided in C12/C06)"]


def specs(tier):
    out = []
    cats3 = ["-", "a", "b", "c", "o"]
    if tier == "quick":
        for a, b in itertools.product(cats3, cats3):
            if a == "a" or b == "b" or (a, b) == ("b", "a"):
                continue  # self-parent / 2-cycle: excluded by the precondition
            out.append(XSpec("levels[n=3,parents<=1,part=%s%s*]" % (a, b), "vlib.harness.c02", "cond_levels_1", "reach_levels_1",
                             timeout=200, env=dict(VB_N=3, VB_MAXP=1, VB_PART=a + b + "*"),
                             bounds=dict(features=3, parents_per_feature="<=1", parent_value="any string <=1 char", partition=a + b + "*")))
        for a, b in (("-", "a"), ("-", "-"), ("b", "-")):
            out.append(XSpec("levels[n=3,feature c has 2 parents,part=%s%s*]" % (a, b), "vlib.harness.c02", "cond_levels_2", "reach_levels_2",
                             timeout=400, env=dict(VB_N=3, VB_MAXP=2, VB_PART=a + b + "*", VB_Q01="0"),
                             bounds=dict(features=3, parents_per_feature="<=2 for the last feature", partition=a + b + "*")))
    else:
        for a, b in itertools.product(cats3, cats3):
            if a == "a" or b == "b" or (a, b) == ("b", "a"):
                continue
            out.append(XSpec("levels[n=3,feature c has 2 parents,part=%s%s*]" % (a, b), "vlib.harness.c02", "cond_levels_2", "reach_levels_2",
                             timeout=1500, env=dict(VB_N=3, VB_MAXP=2, VB_PART=a + b + "*", VB_Q01="0"),
                             bounds=dict(features=3, parents_per_feature="<=2 for the last feature", partition=a + b + "*")))
        cats4 = ["-", "a", "b", "c", "d", "o"]
        for a, b in itertools.product(cats4, cats4):
            if a == "a" or b == "b" or (a, b) == ("b", "a"):
                continue
            out.append(XSpec("levels[n=4,parents<=1,part=%s%s**]" % (a, b), "vlib.harness.c02", "cond_levels4_1", "reach_levels4_1",
                             timeout=1500, env=dict(VB_N=4, VB_MAXP=1, VB_PART=a + b + "**"),
                             bounds=dict(features=4, parents_per_feature="<=1", partition=a + b + "**")))
    return out


def s_conditions(tier):
    """argument shapes of _relation() decided symbolically (all ids / featuretypes / levels)"""
    conds = []
    zq = types.SimpleNamespace(idp=z3.String("q_id"), level=z3.Int("q_level"), fts=[z3.String("q_ft%d" % i) for i in range(2)])
    f = sqlsmt.sym_row("features", "", nullable=())
    f2 = sqlsmt.sym_row("features", "_2", nullable=())
    r = sqlsmt.sym_row("relations", "", nullable=())
    allv = [zq.idp, zq.level] + zq.fts + [f[c].term for c in ("id", "featuretype", "start")] + [r[c].term for c in r]
    nonempty = z3.And([z3.Length(x) > 0 for x in [zq.idp] + zq.fts])
    for join, lvl, nft, order in itertools.product(("children", "parents"), (False, True), (0, 1, 2), (None, "start")):
        t0 = time.time()
        c = Cond("relation-args[%s,level=%s,ft=%d,order_by=%s]" % (join, "int" if lvl else "None", nft, order), "S:symx+sql->z3",
                 {"id/featuretype": "any non-empty string", "level": "any int", "rows": "any feature row x any relation row"})
        symx.reset_tokens()

        def fn():
            db = rec_db()
            kw = {}
            if lvl:
                kw["level"] = SymInt(zq.level)
            if nft == 1:
                kw["featuretype"] = SymStr(zq.fts[0])
            elif nft == 2:
                kw["featuretype"] = [SymStr(t) for t in zq.fts]
            if order:
                kw["order_by"] = order
            list(getattr(db, join)(SymStr(zq.idp), **kw))
            return db.conn.log[-1]

        try:
            paths, st = symx.explore(fn, lambda: (), assume=lambda: nonempty)
            c.paths, c.queries, c.solver_s = len(paths), st["queries"], st["solver_s"]
            vcs = []
            for n, p in enumerate(paths):
                pc = symx.pc_formula(p.pc)
                if p.exc is not None:
                    vcs.append(VC("path%d: no exception (%s)" % (n, p.exc), z3.Not(pc), allv))
                    continue
                sql, args = p.result
                ast, nparams = sqlfe.parse(sql)
                if nparams != len(args):
                    raise sqlfe.SqlUnsupported("%d placeholders, %d args" % (nparams, len(args)))
                if not ast[1] or not any(it[0] in (("col", None, "id"), ("col", "features", "id")) for it in ast[2]):
                    vcs.append(VC("path%d: DISTINCT over a key (each feature once)" % n, z3.BoolVal(False), allv))
                W, keys = sqlsmt.select_predicate(ast, {"features": f, "relations": r}, args)
                mine, other = ("child", "parent") if join == "children" else ("parent", "child")
                spec = [r[mine].term == f["id"].term, r[other].term == zq.idp]
                if lvl:
                    spec.append(r["level"].term == zq.level)
                if nft:
                    spec.append(z3.Or([f["featuretype"].term == t for t in zq.fts[:nft]]))
                vcs.append(VC("path%d: returned <=> related at the level, of the type" % n, z3.Implies(pc, W == z3.And(spec)), allv))
                if order:
                    _, k2 = sqlsmt.select_predicate(ast, {"features": f2, "relations": r}, args)
                    lt, _tie = sqlsmt.before(keys, k2)
                    vcs.append(VC("path%d: ORDER BY start ascending" % n,
                                  z3.Implies(pc, lt == (f["start"].term < f2["start"].term)), allv + [f2["start"].term]))
            nvalid = 0
            for vc in vcs:
                rr = vc.decide()
                c.queries += 1
                c.solver_s += vc.time
                if rr == "valid":
                    nvalid += 1
                else:
                    c.detail += " %s: %s %s;" % (vc.name, rr, vc.model)
            if nvalid == len(vcs) and vcs:
                c.outcome = "confirmed"
            elif any(v.result == "counterexample" for v in vcs):
                c.outcome = "counterexample"
                c.cex = dict(kind="c02s", cond=c.name, detail=c.detail[:500])
            c.bounds["vcs"], c.bounds["vcs_valid"] = len(vcs), nvalid
        except (sqlfe.SqlUnsupported, symx.Unsupported) as ex:
            c.outcome, c.detail = "unexhausted", "outside the modelled subset: %s" % ex
        c.wall_s = time.time() - t0
        conds.append(c)
    symx.reset_tokens()
    return conds


def run(tier, seed):
    sconds = s_conditions(tier)
    rep = run_x_property(
        PROP, tier, seed, specs(tier),
        assumptions=[
            "ids are concrete and unique; every Parent value is a symbolic string of <= 1 character: the solver decides whether it names a stored feature or none",
            "graphs are acyclic (precondition, per the statement's quantifier); line order is covered because any feature may name any other, earlier or later",
            "quick: 3 features, <= 1 parent each, plus two-parent cases for the last feature; thorough: 4 features / two parents over all partitions",
            "argument shapes (level, featuretype, order_by) are decided separately in Engine S over all ids/levels/types",
        ],
        stand_ins=STAND_INS,
        functions=["gffutils.create.create_db", "gffutils.create._GFFDBCreator._populate_from_lines",
                   "gffutils.create._GFFDBCreator._update_relations", "gffutils.create._DBCreator._finalize",
                   "gffutils.interface.FeatureDB.children", "gffutils.interface.FeatureDB.parents",
                   "gffutils.interface.FeatureDB._relation", "gffutils.helpers.make_query",
                   "gffutils.interface.FeatureDB.iter_by_parent_childs", "gffutils.iterators._FeatureIterator"],
    )
    for c in sconds:
        rep.add(c)
        if c.outcome == "counterexample":
            ok, txt = replay_shapes()
            if ok is False:
                rep.violation(c.name, dict(c.cex), txt)
            else:
                c.outcome = "error"
                c.detail = "Engine-S VC failed but the concrete witness family passes on real sqlite (%s): %s" % (txt, c.detail)
    return rep.finish()


def replay_shapes():
    """Concrete witness family for the argument-shape VCs, on the real stack: a gene G, an mRNA M (Parent=G) and
    features naming both G and M / only M, in both line orders; every level / featuretype / order_by shape is
    compared (as lists: each feature once) with the Parent graph."""
    import gffutils
    lines = ["s\t.\tgene\t1\t90\t.\t+\t.\tID=G", "s\t.\tmRNA\t1\t90\t.\t+\t.\tID=M;Parent=G",
             "s\t.\texon\t5\t9\t.\t+\t.\tID=X;Parent=G,M", "s\t.\texon\t1\t4\t.\t+\t.\tID=Y;Parent=M",
             "s\t.\tCDS\t2\t3\t.\t+\t.\tID=Z;Parent=M,G"]
    par = {"G": [], "M": ["G"], "X": ["G", "M"], "Y": ["M"], "Z": ["M", "G"]}
    typ = {"G": "gene", "M": "mRNA", "X": "exon", "Y": "exon", "Z": "CDS"}
    start = {"G": 1, "M": 1, "X": 5, "Y": 1, "Z": 2}

    def l1(x):
        return [y for y in par if x in par[y]]

    def l2(x):
        return sorted(set(z for y in l1(x) for z in l1(y)))

    def up1(x):
        return list(par[x])

    def up2(x):
        return sorted(set(z for y in par[x] for z in par[y]))

    try:
        for order in (lines, lines[::-1]):
            db = gffutils.create_db("\n".join(order), ":memory:", from_string=True)
            for x in par:
                for lvl in (1, 2, None):
                    for ft in (None, "exon", ["exon", "CDS"]):
                        for ob in (None, "start"):
                            for name, e1, e2 in (("children", l1, l2), ("parents", up1, up2)):
                                exp = e1(x) if lvl == 1 else e2(x) if lvl == 2 else sorted(set(e1(x)) | set(e2(x)))
                                exp = sorted(i for i in exp if ft is None or typ[i] == ft or (isinstance(ft, list) and typ[i] in ft))
                                got = [f.id for f in getattr(db, name)(x, level=lvl, featuretype=ft, order_by=ob)]
                                if sorted(got) != exp:
                                    return False, "%s(%r, level=%s, featuretype=%r, order_by=%r) = %s, Parent graph says %s" % (name, x, lvl, ft, ob, got, exp)
                                if ob and [start[i] for i in got] != sorted(start[i] for i in got):
                                    return False, "%s(%r, order_by='start') = %s is not sorted by start" % (name, x, got)
        return True, "all shapes agree on the witness family"
    except Exception as ex:
        return False, "witness family raised %s: %s" % (type(ex).__name__, ex)
