"""C18 - len / sequence / bed12 / to_bed12 (Engine X)."""
from vlib.runner import XSpec, run_x_property

PROP = "C18"
H = "vlib.harness.c18"


def specs(tier):
    q = tier == "quick"
    out = [XSpec("len[start any int, extent<=8]", H, "cond_len", "reach_len", timeout=100,
                 bounds=dict(start="unbounded int", extent="0..8"))]
    maxlen = 4 if q else 5
    for n in range(1, maxlen + 1):
        for st in ("+", "-", "."):
            out.append(XSpec("sequence[len=%d,strand=%s]" % (n, st), H, "cond_seq", "reach_seq" if (st == "-" and n >= 3) else None,
                             timeout=300 if q else 1500, env=dict(VB_SEQLEN=maxlen, VB_SLEN=n, VB_SSTRAND=st),
                             bounds=dict(sequence="any of ACGTN^%d" % n, start_end="1 <= start <= end <= %d" % n, use_strand="symbolic bool")))
    hi, ts, te = (5, 2, 4) if q else (6, 2, 5)
    base = dict(VB_HI=hi, VB_TS=ts, VB_TE=te)
    out.append(XSpec("bed12[0 exons, 0-1 CDS... all flags]", H, "cond_bed12", "reach_bed12", timeout=300,
                     env=dict(base, VB_NEX=0, VB_NCDS=0), bounds=dict(exons=0, cds=0, strand="+/-", arg="id or Feature", name="present/absent")))
    out.append(XSpec("bed12[0 exons, 1 CDS]", H, "cond_bed12", "reach_bed12", timeout=300,
                     env=dict(base, VB_NEX=0, VB_NCDS=1), bounds=dict(exons=0, cds="1 within the transcript", flags="all")))
    out.append(XSpec("bed12[1 exon, all flags]", H, "cond_bed12", "reach_bed12", timeout=400,
                     env=dict(base, VB_NEX=1, VB_NCDS=0), bounds=dict(exons="1 anywhere in 1..%d" % hi, transcript="%d..%d" % (ts, te), flags="all")))
    for e0 in range(1, hi + 1):
        out.append(XSpec("bed12[2 exons, first starts at %d]" % e0, H, "cond_bed12", "reach_bed12" if e0 == ts else None, timeout=600 if q else 2000,
                         env=dict(base, VB_NEX=2, VB_NCDS=0, VB_E0=e0, VB_FIXFLAGS=1),
                         bounds=dict(exons="2 anywhere in 1..%d, distinct starts" % hi, transcript="%d..%d" % (ts, te), flags="strand +, Feature arg, ID present")))
    out.append(XSpec("bed12[thick from 1 CDS, exons at both ends]", H, "cond_bed12", "reach_bed12", timeout=400,
                     env=dict(base, VB_NEX=2, VB_NCDS=1, VB_FIXEX=1), bounds=dict(cds="1 anywhere within the transcript", flags="all")))
    return out


def run(tier, seed):
    rep = run_x_property(
        PROP, tier, seed, specs(tier),
        assumptions=[
            "bed12 coordinates range over a small finite window (1..5 quick, 1..6 thorough; transcript fixed inside it): the fields are rendered with str(int), which concretises",
            "exons have distinct starts ('ascending order' does not order ties); ValueError is required when min start / max end of the blocks differ from the feature's and forbidden when the start-ordered blocks begin and end at the feature's ends; nested layouts in between may do either",
            "Feature.sequence runs against a stand-in for pyfaidx implementing its documented slicing contract (replay uses real pyfaidx on a temp FASTA)",
            "convert.to_bed12 is compared on the common core only (12 fields, chromStart/End, strand, blocks)",
        ],
        stand_ins=["fakefasta (pyfaidx contract)", "simsql", "jsonbox", "bins_stub", "fakefs", "nocache_quoter"],
        functions=["gffutils.feature.Feature.__len__", "gffutils.feature.Feature.sequence", "gffutils.interface.FeatureDB.bed12",
                   "gffutils.convert.to_bed12", "gffutils.interface.FeatureDB.children", "gffutils.interface.FeatureDB.__getitem__"],
    )
    return rep.finish()
