"""C06 - region() and limit= queries.  Engine S.

The real FeatureDB.region / all_features / features_of_type / children / parents (and through
them helpers.make_query and bins.bins) are executed on symbolic query coordinates and symbolic
text arguments against a recording connection.  Every feasible path yields SQL text + args; the
SQL is parsed and its WHERE/ON clauses are evaluated over a symbolic stored row, and the
verification condition

    path-condition & query-precondition & row-invariant  =>  (row is returned  <=>  SPEC(row, query))

is decided by z3 for ALL integer coordinates (no bound).  The row invariant ties the stored bin
to the function summary of the real bins.bins(one=True) generated in the same run.
"""
import importlib
import itertools
import time
import types

import z3

from vlib import sqlfe, sqlsmt, symx
from vlib.dual import And, Iff, Implies, Not, Or
from vlib.runner import Cond, Report, load_known
from vlib.symx import SymInt, SymStr, VC, _t

PROP = "C06"


# ---------------------------------------------------------------------------------------------
class RecCursor:
    def __init__(self, log):
        self.log = log

    def execute(self, q, args=()):
        self.log.append((q, list(args)))
        return self

    def __iter__(self):
        return iter(())

    def fetchone(self):
        return None


class RecConn:
    def __init__(self):
        self.log = []

    def cursor(self):
        return RecCursor(self.log)


def rec_db():
    I = importlib.import_module("gffutils.interface")
    C = importlib.import_module("gffutils.constants")
    db = I.FeatureDB.__new__(I.FeatureDB)
    db.conn = RecConn()
    db.dialect = C.dialect
    db.keep_order = False
    db.sort_attribute_values = False
    db.default_encoding = "utf-8"
    return db


# ---------------------------------------------------------------------------------------------
class Form:
    """One shape of query.  `call(db, q)` performs it on the real API with the values in q
    (symbolic proxies or concrete values)."""

    def __init__(self, style, sided="both", cw=False, seq=True, strand=False, nft=0, ftlist=False,
                 join=None, level=False):
        self.style, self.sided, self.cw, self.seq, self.strand = style, sided, cw, seq, strand
        self.nft, self.ftlist, self.join, self.level = nft, ftlist, join, level
        self.name = "%s|%s|cw=%d|seqid=%d|strand=%d|ft=%d%s%s%s" % (
            style, sided, cw, seq, strand, nft, "L" if ftlist else "", "|" + join if join else "",
            "+level" if level else "")

    def ft_arg(self, q):
        if self.nft == 0:
            return None
        if self.nft == 1 and not self.ftlist:
            return q.fts[0]
        return list(q.fts[: self.nft])

    def call(self, db, q):
        F = importlib.import_module("gffutils.feature")
        kw = dict(completely_within=self.cw)
        ft = self.ft_arg(q)
        strand = q.strand if self.strand else None
        st = self.style
        if st.startswith("region"):
            if ft is not None:
                kw["featuretype"] = ft
            if strand is not None and st != "region-feature":
                kw["strand"] = strand
            if st == "region-tuple":
                return list(db.region(region=(q.seq, q.qs, q.qe), **kw))
            if st == "region-kw":
                return list(db.region(seqid=q.seq if self.seq else None,
                                      start=q.qs if self.sided in ("both", "start") else None,
                                      end=q.qe if self.sided in ("both", "end") else None, **kw))
            if st == "region-str":
                return list(db.region("%s:%s-%s" % (q.seq, q.qs, q.qe), **kw))
            if st == "region-feature":
                f = F.Feature(seqid="x", start=1, end=1, strand=".")
                f.seqid, f.start, f.end, f.strand = q.seq, q.qs, q.qe, q.strand
                return list(db.region(f, **kw))
        lim = (q.seq, q.qs, q.qe) if st == "limit-tuple" else "%s:%s-%s" % (q.seq, q.qs, q.qe)
        kw["limit"] = lim
        if strand is not None and self.join is None:
            kw["strand"] = strand
        if self.join:
            if ft is not None:
                kw["featuretype"] = ft
            if self.level:
                kw["level"] = q.level
            return list(getattr(db, self.join)(q.idp, **kw))
        if ft is not None and self.nft == 1 and not self.ftlist and not self.strand:
            return list(db.features_of_type(ft, **kw))
        if ft is not None:
            kw["featuretype"] = ft
        return list(db.all_features(**kw))

    # ---- specification (dual mode) -----------------------------------------------------------
    def spec_filters(self, row, rel, q):
        """seqid / strand / featuretype / relation part of the statement"""
        cl = []
        if self.seq:
            cl.append(row["seqid"] == q.seq)
        if self.strand or self.style == "region-feature":
            if not (self.join and self.style.startswith("limit")):
                cl.append(row["strand"] == q.strand)
        if self.nft:
            cl.append(Or(*[row["featuretype"] == t for t in q.fts[: self.nft]]))
        if self.join:
            mine, other = ("child", "parent") if self.join == "children" else ("parent", "child")
            cl.append(rel[mine] == row["id"])
            cl.append(rel[other] == q.idp)
            if self.level:
                cl.append(rel["level"] == q.level)
        return And(*cl) if cl else True

    def spec_two_sided(self, row, q):
        nn = And(Not(row["start_null"]), Not(row["end_null"]))
        if self.cw:
            return And(nn, q.qs <= row["start"], row["end"] <= q.qe)
        return And(nn, row["start"] <= q.qe, row["end"] >= q.qs)

    def spec_one_sided(self, row, q):
        """-> (necessary, sufficient): returned => necessary ; sufficient => returned"""
        nn = And(Not(row["start_null"]), Not(row["end_null"]))
        if self.sided == "start":
            b = q.qs
            if self.cw:
                return And(nn, row["start"] >= b), And(nn, row["start"] > b)
            return And(nn, row["end"] >= b), And(nn, row["end"] > b)
        b = q.qe
        if self.cw:
            return And(nn, row["end"] <= b), And(nn, row["end"] < b)
        return And(nn, row["start"] <= b), And(nn, row["start"] < b)


def forms(tier):
    out = []
    both = [False, True]
    # region(): tuple / keyword / string / Feature forms
    for cw in both:
        out.append(Form("region-tuple", cw=cw))
        out.append(Form("region-tuple", cw=cw, strand=True, nft=2, ftlist=True))
        out.append(Form("region-kw", cw=cw, seq=False))
        out.append(Form("region-kw", cw=cw, sided="start"))
        out.append(Form("region-kw", cw=cw, sided="end"))
        out.append(Form("region-str", cw=cw))
        out.append(Form("region-feature", cw=cw))
        out.append(Form("limit-tuple", cw=cw))
        out.append(Form("limit-str", cw=cw))
        out.append(Form("limit-tuple", cw=cw, nft=1))
        out.append(Form("limit-tuple", cw=cw, strand=True, nft=2, ftlist=True))
        out.append(Form("limit-tuple", cw=cw, join="children", level=True))
        out.append(Form("limit-tuple", cw=cw, join="parents"))
    if tier in ("quick", "thorough"):   # the full shape table costs under a minute: both tiers decide all shapes
        for cw, strand, (nft, ftl) in itertools.product(both, both, [(0, False), (1, False), (1, True), (2, True), (3, True)]):
            out.append(Form("region-tuple", cw=cw, strand=strand, nft=nft, ftlist=ftl))
            out.append(Form("region-str", cw=cw, strand=strand, nft=nft, ftlist=ftl))
            out.append(Form("region-kw", cw=cw, seq=False, strand=strand, nft=nft, ftlist=ftl))
            for sided in ("start", "end"):
                out.append(Form("region-kw", cw=cw, sided=sided, strand=strand, nft=nft, ftlist=ftl))
                out.append(Form("region-kw", cw=cw, sided=sided, seq=False, strand=strand, nft=nft, ftlist=ftl))
            out.append(Form("region-feature", cw=cw, nft=nft, ftlist=ftl))
            for st in ("limit-tuple", "limit-str"):
                out.append(Form(st, cw=cw, strand=strand, nft=nft, ftlist=ftl))
                for join, level in itertools.product(("children", "parents"), both):
                    if not strand:
                        out.append(Form(st, cw=cw, nft=nft, ftlist=ftl, join=join, level=level))
    seen, uniq = set(), []
    for f in out:
        if f.name not in seen:
            seen.add(f.name)
            uniq.append(f)
    return uniq


# ---------------------------------------------------------------------------------------------
def _sym_query():
    q = types.SimpleNamespace()
    q.z = dict(qs=z3.Int("qs"), qe=z3.Int("qe"), seq=z3.String("q_seqid"), strand=z3.String("q_strand"),
               idp=z3.String("q_id"), level=z3.Int("q_level"),
               fts=[z3.String("q_ft%d" % i) for i in range(3)])
    return q


def _mk_proxies(q):
    """fresh proxies over the same z3 variables (tokens are re-created per path)"""
    p = types.SimpleNamespace()
    p.qs, p.qe = SymInt(q.z["qs"]), SymInt(q.z["qe"])
    p.seq, p.strand, p.idp = SymStr(q.z["seq"]), SymStr(q.z["strand"]), SymStr(q.z["idp"])
    p.level = SymInt(q.z["level"])
    p.fts = [SymStr(t) for t in q.z["fts"]]
    return p


def _zq(q):
    z = types.SimpleNamespace()
    z.qs, z.qe, z.seq, z.strand, z.idp, z.level, z.fts = (q.z["qs"], q.z["qe"], q.z["seq"], q.z["strand"],
                                                        q.z["idp"], q.z["level"], q.z["fts"])
    return z


def _rowview(row):
    v = {c: row[c].term for c in row}
    v["start_null"], v["end_null"], v["bin_null"] = row["start"].null, row["end"].null, row["bin"].null
    return v


def run(tier, seed):
    rep = Report(PROP, tier, seed)
    rep.rule = ("one condition per query shape (API form x completely_within x filters); inside it one validity "
                "query per feasible path of the real query-building code; non-trivial = both 'row returned' and "
                "'row not returned' are satisfiable under the path")
    rep.explanation = ("Engine S: real FeatureDB.region / make_query / bins.bins run on symbolic proxies against a recording "
                       "connection; emitted SQL is translated to SMT (three-valued logic) and compared with the statement's "
                       "predicate for ALL integer coordinates and all text values")
    rep.assumptions = [
        "stored rows have non-NULL coordinates with start <= end (for a feature with '.' coordinates the statement's comparisons are undefined) and bin = bins(start, end, one=True) (summary of the real function, regenerated per run); that Feature/astuple compute exactly that is C12/O8",
        "SQLite semantics of the emitted WHERE/ON subset as encoded in vlib/sqlsmt.py (3-valued logic, BINARY collation, numeric affinity for decimal text bound against INTEGER columns); counterexamples are replayed on real sqlite3",
        "text arguments are non-empty; in 'seqid:start-end' string forms the seqid contains neither ':' nor '-'",
        "one-sided queries: 'returned => not outside the half-line' and 'strictly beyond the bound => returned' (for completely_within the sufficient side is 'lies strictly beyond the bound')",
        "region(Feature): the feature's own strand acts as the strand restriction (code behaviour; the docstring says otherwise, the property does not pin it)",
        "each-feature-once: a single-table SELECT yields each row at most once; JOIN forms must carry DISTINCT and select features.id (checked syntactically on every path)",
    ]
    rep.functions = ["gffutils.interface.FeatureDB.region", "gffutils.interface.FeatureDB.all_features",
                     "gffutils.interface.FeatureDB.features_of_type", "gffutils.interface.FeatureDB.children",
                     "gffutils.interface.FeatureDB.parents", "gffutils.interface.FeatureDB._relation",
                     "gffutils.interface.FeatureDB._execute", "gffutils.helpers.make_query", "gffutils.bins.bins"]
    rep.stand_ins = ["recording connection (captures SQL text + args)", "vlib/sqlfe.py + vlib/sqlsmt.py (SQL subset -> SMT)"]
    B = importlib.import_module("gffutils.bins")
    I = importlib.import_module("gffutils.interface")
    H = importlib.import_module("gffutils.helpers")
    known = {k["key"]: k for k in load_known(PROP) if k.get("status") == "known"}

    symx.install(B, ("range", "set"))
    symx.install(I, ("int", "len", "list"))
    symx.install(H, ("int", "len"))
    try:
        # summary of the real bins(one=True) for the row invariant
        s, e = z3.Ints("start end")
        paths, st = symx.explore(lambda a, b: B.bins(a, b, one=True), lambda: (SymInt(s), SymInt(e)))
        one_sum = symx.ite_summary([p for p in paths if p.exc is None and isinstance(p.result, (int, SymInt))],
                                   lambda p: _t(p.result), z3.IntVal(-1))
        q = _sym_query()
        zq = _zq(q)
        frow = sqlsmt.sym_row("features", "", nullable=())
        rrow = sqlsmt.sym_row("relations", "", nullable=())
        fv, rv = _rowview(frow), {c: rrow[c].term for c in rrow}
        nn = z3.And(z3.Not(frow["start"].null), z3.Not(frow["end"].null))
        inv = z3.And(
            z3.Implies(nn, z3.And(frow["start"].term <= frow["end"].term, z3.Not(frow["bin"].null),
                                  frow["bin"].term == z3.substitute(one_sum, (s, frow["start"].term), (e, frow["end"].term)))),
            z3.Implies(z3.Not(nn), frow["bin"].null))
        strs = [zq.seq, zq.strand, zq.idp] + zq.fts
        nonempty = z3.And([z3.Length(x) > 0 for x in strs])
        allvars = [zq.qs, zq.qe, zq.seq, zq.strand, zq.idp, zq.level] + zq.fts + \
                  [frow[c].term for c in ("id", "seqid", "featuretype", "strand", "start", "end", "bin")] + \
                  [frow["start"].null, frow["end"].null] + [rrow[c].term for c in rrow]

        for form in forms(tier):
            t0 = time.time()
            c = Cond(form.name, "S:symx+sql->z3", {"qs,qe": "any int, 1 <= qs <= qe", "row": "any start <= end",
                                                    "text": "any non-empty string"})
            pre = [nonempty]
            if form.sided == "both":
                pre += [zq.qs >= 1, zq.qs <= zq.qe]
            elif form.sided == "start":
                pre += [zq.qs >= 1]
            else:
                pre += [zq.qe >= 1]
            if form.style in ("region-str", "limit-str"):
                pre += [z3.Not(z3.Contains(zq.seq, z3.StringVal(":"))), z3.Not(z3.Contains(zq.seq, z3.StringVal("-")))]
            pre = z3.And(pre)

            symx.reset_tokens()

            def fn():
                db = rec_db()
                form.call(db, _mk_proxies(q))
                return db.conn.log[-1]

            try:
                paths, st = symx.explore(fn, lambda: (), assume=lambda: pre)
            except symx.Unsupported as ex:
                c.outcome, c.detail = "unexhausted", "unsupported operation in the real code: %s" % ex
                rep.add(c)
                continue
            c.paths, c.queries, c.solver_s = len(paths), st["queries"], st["solver_s"]
            vcs = []
            bad = None
            for n, p in enumerate(paths):
                pc = symx.pc_formula(p.pc)
                if p.exc is not None:
                    vcs.append((VC("path%d: no exception (%s: %s)" % (n, type(p.exc).__name__, str(p.exc)[:80]),
                                   z3.Not(pc), allvars), None))
                    continue
                sql, args = p.result
                try:
                    ast, nparams = sqlfe.parse(sql)
                    if nparams != len(args):
                        raise sqlfe.SqlUnsupported("%d placeholders but %d arguments" % (nparams, len(args)))
                    rows = {"features": frow}
                    if form.join:
                        rows["relations"] = rrow
                        if not ast[1]:
                            raise sqlfe.SqlUnsupported("JOIN query without DISTINCT")
                        if not any(it[0] in (("col", None, "id"), ("col", "features", "id")) for it in ast[2]):
                            raise sqlfe.SqlUnsupported("JOIN query does not select features.id")
                    W, _ = sqlsmt.select_predicate(ast, rows, args)
                except sqlfe.SqlUnsupported as ex:
                    bad = "path%d: SQL outside the modelled subset: %s" % (n, ex)
                    break
                filt = form.spec_filters(fv, rv, zq)
                hyp = z3.And(pc, inv)
                sample = " ".join(sql.split())[-160:]
                if form.sided == "both":
                    spec = And(filt, form.spec_two_sided(fv, zq))
                    vcs.append((VC("path%d: returned <=> spec" % n, z3.Implies(hyp, W == spec), allvars), sample))
                else:
                    nec, suf = form.spec_one_sided(fv, zq)
                    vcs.append((VC("path%d: returned => not outside" % n, z3.Implies(z3.And(hyp, W), And(filt, nec)), allvars), sample))
                    vcs.append((VC("path%d: beyond => returned" % n, z3.Implies(z3.And(hyp, filt, suf), W), allvars), sample))
                # vacuity: both outcomes reachable on this path
                for want in (True, False):
                    sv = z3.Solver()
                    sv.add(hyp, W if want else z3.Not(W))
                    c.queries += 1
                    if str(sv.check()) != "sat":
                        bad = "path%d: 'row %sreturned' is unsatisfiable (vacuous path)" % (n, "" if want else "not ")
            if bad:
                c.outcome, c.detail = ("error" if "vacuous" in bad else "unexhausted"), bad
                c.wall_s = time.time() - t0
                rep.add(c)
                continue
            nvalid = 0
            for nvc, (vc, sample) in enumerate(vcs):
                r = vc.decide()
                c.queries += 1
                c.solver_s += vc.time
                if r == "valid" and tier == "thorough" and nvc == 0:
                    # one VC per condition is re-decided by independent solver builds from its SMT-LIB2 text
                    xc = vc.cross_check()
                    cs = rep.extra.setdefault("cross_solver", {"agree": 0, "disagree": [], "inconclusive": 0})
                    if "sat" in xc.values():
                        cs["disagree"].append((form.name, vc.name, xc))
                        c.detail += " %s: z3 5.1 says valid but %r;" % (vc.name, xc)
                        continue
                    cs["agree" if set(xc.values()) == {"unsat"} else "inconclusive"] += 1
                if r == "valid":
                    nvalid += 1
                    continue
                if r == "unknown":
                    c.detail += " %s: solver unknown;" % vc.name
                    continue
                ok, txt = replay(form, vc.model)
                if ok is None:
                    c.outcome = "error"
                    c.detail += " %s: replay failed: %s;" % (vc.name, txt)
                    continue
                if ok:
                    c.outcome = "error"
                    c.detail += " %s: model does not reproduce on real sqlite (%s) model=%s;" % (vc.name, txt, vc.model)
                    continue
                tag = classify(form, vc.model, B)
                if tag in known:
                    c.detail += " %s: known finding %s;" % (vc.name, tag)
                    continue
                c.outcome = "counterexample"
                c.cex = dict(kind="c06", form=form.name, vc=vc.name, model=vc.model)
                rep.violation(form.name + "/" + vc.name, dict(c.cex), txt)
            if c.outcome == "unexhausted" and nvalid == len(vcs):
                c.outcome = "confirmed"
            c.bounds["vcs"], c.bounds["vcs_valid"] = len(vcs), nvalid
            c.samples = [{"sql_tail": smp, "vc": v.name, "result": v.result} for v, smp in vcs[:2]]
            c.wall_s = time.time() - t0
            rep.add(c)
    finally:
        symx.uninstall(B, ("range", "set"))
        symx.uninstall(I, ("int", "len", "list"))
        symx.uninstall(H, ("int", "len"))
        symx.reset_tokens()
    return rep.finish()


def classify(form, model, B):
    return None


FORMS_BY_NAME = None


def replay(form, model):
    """Builds a real :memory: database holding the model's row (and relation), runs the real query with the
    model's arguments on real sqlite3 and compares with the statement.  -> (holds, text)"""
    import gffutils
    from gffutils.feature import Feature
    m = model

    def g(k, d=None):
        return m.get(k, d)

    try:
        q = types.SimpleNamespace(qs=g("qs", 1), qe=g("qe", 1), seq=g("q_seqid", "s"), strand=g("q_strand", "+"),
                                  idp=g("q_id", "p"), level=g("q_level", 1),
                                  fts=[g("q_ft%d" % i, "t%d" % i) for i in range(3)])
        start = None if str(g("fea_start_isnull")) == "True" else g("fea_start")
        end = None if str(g("fea_end_isnull")) == "True" else g("fea_end")
        fid = g("fea_id", "x") or "x"
        feats = [Feature(seqid=g("fea_seqid", ""), source="src", featuretype=g("fea_featuretype", ""),
                         start=start if start is not None else ".", end=end if end is not None else ".",
                         strand=g("fea_strand", ""), attributes={"ID": [fid]})]
        db = gffutils.create_db(feats, ":memory:", id_spec="ID")
        if form.join:
            rel = (g("rel_parent", ""), g("rel_child", ""), g("rel_level", 1))
            db.conn.execute("INSERT OR IGNORE INTO relations VALUES (?,?,?)", rel)
            db.conn.commit()
    except Exception as ex:
        return None, "could not build the replay database: %s: %s" % (type(ex).__name__, ex)
    try:
        got = form.call(db, q)
        returned = any(f.id == fid for f in got)
        dup = len(got) != len(set(f.id for f in got))
        row = dict(id=fid, seqid=g("fea_seqid", ""), featuretype=g("fea_featuretype", ""), strand=g("fea_strand", ""),
                   start=start if start is not None else 0, end=end if end is not None else 0,
                   start_null=start is None, end_null=end is None)
        rel = dict(parent=g("rel_parent", ""), child=g("rel_child", ""), level=g("rel_level", 1))
        filt = form.spec_filters(row, rel, q)
        txt = "form %s, stored feature %s:%s-%s strand=%r type=%r; query qs=%s qe=%s seqid=%r -> returned=%s" % (
            form.name, row["seqid"], start, end, row["strand"], row["featuretype"], q.qs, q.qe, q.seq, returned)
        if dup:
            return False, txt + " (a feature was returned more than once)"
        if form.sided == "both":
            want = bool(And(filt, form.spec_two_sided(row, q)))
            return returned == want, txt + ", statement says %s" % want
        nec, suf = form.spec_one_sided(row, q)
        if returned and not And(filt, nec):
            return False, txt + ", but it lies outside the half-line / filters"
        if And(filt, suf) and not returned:
            return False, txt + ", but it extends strictly beyond the bound"
        return True, txt
    except Exception as ex:
        import traceback
        return False, "real call raised %s: %s | %s" % (type(ex).__name__, ex, traceback.format_exc()[-300:].replace("\n", " / "))
