"""C05 - duplicate keys resolved as merge_strategy says; nothing lost or invented (Engine X over simsql)."""
from vlib.runner import XSpec, run_x_property

PROP = "C05"
H = "vlib.harness.c05"
STRATS = ("error", "warning", "replace", "create_unique", "merge")


def specs(tier):
    out = []
    for st in STRATS:
        for imp in ("gff", "gtf"):
            for mode in ("create", "update"):
                fmfs = ("", "source", "source,score") if st == "merge" else ("",)
                for fmf in fmfs:
                    env = dict(VB_STRATEGY=st, VB_IMPORTER=imp, VB_MODE=mode, VB_FMF=fmf)
                    name = "%s,%s importer,%s,force_merge_fields=[%s]" % (st, imp, mode, fmf)
                    out.append(XSpec("two-arrivals[%s]" % name, H, "cond_two", "reach_two", timeout=600, env=dict(env, VB_NARR=2),
                                     bounds=dict(arrivals=2, second="source s1|s2, score .|7, value from (p,q,x_1), Parent none|P1|P2", config=name)))
                    if st in ("merge", "create_unique", "replace", "warning") and (tier == "thorough" or (imp == "gff" and mode == "create")):
                        for second in ("src", "same"):
                            out.append(XSpec("three-arrivals[%s,second %s]" % (name, "differs in source" if second == "src" else "agrees"),
                                             H, "cond_three", "reach_three", timeout=900, env=dict(env, VB_NARR=3, VB_SECOND=second),
                                             bounds=dict(arrivals=3, second=second, third="source, score, value, Parent symbolic", config=name)))
    for st in ("create_unique", "merge"):
        out.append(XSpec("natural-id-x_1[%s]" % st, H, "cond_two", "reach_two", timeout=600,
                         env=dict(VB_STRATEGY=st, VB_IMPORTER="gff", VB_MODE="create", VB_NATURAL=1),
                         bounds=dict(arrivals=2, extra="a feature whose own ID is x_1 arrives first", strategy=st)))
    return out


def run(tier, seed):
    rep = run_x_property(
        PROP, tier, seed, specs(tier), classify=classify,
        assumptions=["all colliding arrivals request the key 'x'; columns source/score take one of two values each (the solver decides agreement); attribute values and Parent values from finite alphabets (_do_merge's logging and the counter dict concretise strings)",
                     "reference model = the statement executed on plain data: error aborts; warning ignores later arrivals entirely; replace keeps only the last (the replaced feature's own Parent links go with it); create_unique files later arrivals under x_1, x_2; merge unions values into the column-compatible entry (forced columns = comma-joined sorted set of values seen), else a fresh x_n; Parent links attach to the entry the arrival ends up in",
                     "GTF importer is exercised with id_spec='ID' and no transcript_id/gene_id attributes (its relation logic is C03's subject)"],
        stand_ins=["simsql", "jsonbox", "fakefs", "bins_stub", "nocache_quoter"],
        functions=["gffutils.create._GFFDBCreator._populate_from_lines", "gffutils.create._GTFDBCreator._populate_from_lines",
                   "gffutils.create._DBCreator._do_merge", "gffutils.create._DBCreator._candidate_merges", "gffutils.create._DBCreator._add_duplicate",
                   "gffutils.create._DBCreator._replace", "gffutils.interface.FeatureDB.update", "gffutils.create.create_db"],
    )
    return rep.finish()


def classify(cond, text):
    return None
