"""Condition tables shared by C07 / C08 / C09 (parser harness vlib/harness/par.py)."""
import itertools

from vlib.runner import XSpec

H = "vlib.harness.par"
FMTS = ("gff3", "gtf", "gff2")
SEPS = ("0", "1", "2")
SEPNAME = {"0": "';'", "1": "'; '", "2": "' ; '"}


def skeletons():
    for fmt, sep, trail, rep in itertools.product(FMTS, SEPS, ("0", "1"), ("0", "1")):
        yield dict(VB_FMT=fmt, VB_SEP=sep, VB_TRAIL=trail, VB_REP=rep), "%s,sep=%s,trailing=%s,%s" % (
            fmt, SEPNAME[sep], trail, "repeated-keys" if rep == "1" else "comma-list")
        if fmt == "gff3":   # key="value": the '=' style with quoted values
            yield dict(VB_FMT=fmt, VB_SEP=sep, VB_TRAIL=trail, VB_REP=rep, VB_QUOTED="1"), "gff3-quoted,sep=%s,trailing=%s,%s" % (
                SEPNAME[sep], trail, "repeated-keys" if rep == "1" else "comma-list")


def roundtrip_specs(tier, shapes, tag):
    out = []
    for env, name in skeletons():
        for shape in shapes:
            if env["VB_REP"] == "1" and shape in ("two", "flag", "one"):
                continue   # repeated keys are only observable with a multi-valued key; the comma-list run covers these shapes
            e = dict(env, VB_SHAPE=shape, VB_VLEN=1)
            out.append(XSpec("%s[%s,%s,1 arbitrary char]" % (tag, name, shape), H, "cond_roundtrip1", "reach_roundtrip1", timeout=120, env=e,
                             bounds=dict(skeleton=name, shape=shape, value="1 arbitrary character", other="constants")))
            if tier == "thorough" and env["VB_TRAIL"] == "0" and env["VB_REP"] == ("1" if shape == "multi" else "0"):
                # deeper bounds on a third of the skeletons (every format x separator x quoting once per shape)
                e2 = dict(env, VB_SHAPE=shape, VB_VLEN=2)
                out.append(XSpec("%s[%s,%s,value<=2 chars]" % (tag, name, shape), H, "cond_roundtrip1", "reach_roundtrip1", timeout=600, env=e2,
                                 bounds=dict(skeleton=name, shape=shape, value="1-2 arbitrary characters")))
                out.append(XSpec("%s[%s,%s,2 arbitrary values]" % (tag, name, shape), H, "cond_roundtrip", "reach_roundtrip",
                                 timeout=600, env=dict(e, VB_FIXKEYS=1), bounds=dict(skeleton=name, shape=shape, values="2 arbitrary characters")))
        if tier == "thorough" and env["VB_TRAIL"] == "1":
            e = dict(env, VB_SHAPE="three", VB_VLEN=1)
            out.append(XSpec("%s[%s,three attributes]" % (tag, name), H, "cond_roundtrip1", "reach_roundtrip1", timeout=600, env=e,
                             bounds=dict(skeleton=name, shape="three")))
    return out
