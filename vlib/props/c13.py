"""C13 - input forms are equivalent; peeking never consumes; transform/skip; inspect counts (Engine X)."""
from vlib.runner import XSpec, run_x_property

PROP = "C13"
H = "vlib.harness.itr"


def specs(tier):
    out = []
    for src in ("gen", "iter", "list"):
        out.append(XSpec("peek[%s of 0-4 features, checklines 0..n+2]" % src, H, "cond_peek", "reach_peek", timeout=300, env=dict(VB_SRC=src),
                         bounds=dict(n="0..4", checklines="0..n+2", dialect="inferred or supplied", source=src, oracle="identity of the objects, order, multiplicity")))
    for src in ("gen", "list"):
        out.append(XSpec("transform[%s/file, 0-3 features]" % src, H, "cond_transform", "reach_transform", timeout=600, env=dict(VB_SRC=src),
                         bounds=dict(n="0..3", skip_mask="any", falsy_value="None/False/0/''/[]/()", checklines="0..n+1", input="%s or file" % src)))
    nf = 2 if tier == "quick" else 3
    for cl in range(0, nf + 2):
        out.append(XSpec("forms[%d lines, checklines=%d]" % (nf, cl), H, "cond_forms", "reach_forms", timeout=900 if tier == "quick" else 3600,
                         env=dict(VB_NF=nf, VB_FCL=cl), bounds=dict(lines=nf, line_kinds="gene / mRNA with Parent / comment",
                                                                    forms="path, .gz path, from_string, list, generator, DataIterator, FeatureDB", checklines=cl)))
    looks = ["featuretype,chrom,attribute_keys,feature_count", "featuretype", "attribute_keys,feature_count", "feature_count"]
    for lk in (looks[:2] if tier == "quick" else looks):
        out.append(XSpec("inspect[look_for=%s]" % lk, H, "cond_inspect", "reach_inspect", timeout=400, env=dict(VB_LOOK=lk),
                         bounds=dict(lines=3, limit="0..4", input="file or generator", look_for=lk)))
    return out


def run(tier, seed):
    rep = run_x_property(
        PROP, tier, seed, specs(tier),
        assumptions=["features handed to the iterators are concrete objects (what is symbolic is how many there are, checklines, which are rejected, which falsy value the transform returns, the line kinds of the file)",
                     "a transform never returns a zero-length Feature (its truth value is its length)",
                     "database equivalence = same printed features in order, same ids, same relation triples (directives differ between file and object forms by nature)",
                     ".gz input goes through a stand-in for gzip.open yielding bytes lines (replay uses a real gzip file)"],
        stand_ins=["fakefs (incl. gzip.open)", "simsql", "jsonbox", "bins_stub", "nocache_quoter"],
        functions=["gffutils.iterators.DataIterator", "gffutils.iterators._FeatureIterator.peek", "gffutils.iterators._FeatureIterator._custom_iter",
                   "gffutils.iterators._FileIterator.peek", "gffutils.iterators._FileIterator._custom_iter", "gffutils.iterators._BaseIterator.__iter__",
                   "gffutils.iterators._BaseIterator.__init__", "gffutils.create.create_db", "gffutils.inspect.inspect"],
    )
    return rep.finish()
