"""C01 - import fidelity: every line stored once, comes back unchanged, survives reopen and re-import (Engine X)."""
import itertools

from vlib.props import _par
from vlib.runner import XSpec, run_x_property

PROP = "C01"
H = "vlib.harness.c01"


def specs(tier):
    out = []
    skels = list(_par.skeletons())
    if tier == "quick":
        keep = []
        for env, name in skels:
            # 16 skeletons: every format x separator once with trailing/repeated alternating
            k = (env["VB_FMT"], env.get("VB_QUOTED", "0"), env["VB_SEP"])
            want = {("gff3", "0", "0"): ("0", "0"), ("gff3", "0", "1"): ("1", "1"), ("gff3", "0", "2"): ("0", "1"),
                    ("gff3", "1", "0"): ("1", "0"), ("gff3", "1", "1"): ("0", "1"),
                    ("gtf", "0", "0"): ("0", "1"), ("gtf", "0", "1"): ("1", "0"), ("gtf", "0", "2"): ("1", "1"),
                    ("gff2", "0", "0"): ("1", "1"), ("gff2", "0", "1"): ("0", "0"), ("gff2", "0", "2"): ("1", "0")}
            if want.get(k) == (env["VB_TRAIL"], env["VB_REP"]):
                keep.append((env, name))
        for i, (env, name) in enumerate(keep):
            store = "memory" if i % 3 == 2 else "file"
            strat = "create_unique" if i % 2 else "error"
            out.append(XSpec("fidelity[%s,%s db,%s]" % (name, store, strat), H, "cond_fidelity", "reach_fidelity", timeout=900,
                             env=dict(env, VB_VLEN=3, VB_FIXW=1, VB_STORE=store, VB_STRATEGY=strat),
                             bounds=dict(lines=3, skeleton=name, value="one of 10 representative values (reserved, non-ASCII, blank-containing)",
                                         checklines="0..3", store=store, merge_strategy=strat)))
        out.append(XSpec("fidelity[gff3,';',sort_attribute_values]", H, "cond_fidelity", "reach_fidelity", timeout=900,
                         env=dict(VB_FMT="gff3", VB_VLEN=3, VB_FIXW=1, VB_SORTV=1), bounds=dict(lines=3, sort_attribute_values=True)))
    else:
        for i, (env, name) in enumerate(skels):
            combos = [("file", "error")] if i % 4 else [("file", "error"), ("memory", "create_unique"), ("file", "create_unique"), ("memory", "error")]
            for store, strat in combos:
                out.append(XSpec("fidelity[%s,%s db,%s]" % (name, store, strat), H, "cond_fidelity", "reach_fidelity", timeout=3000,
                                 env=dict(env, VB_VLEN=3, VB_FIXW=0 if i % 6 == 0 else 1, VB_STORE=store, VB_STRATEGY=strat),
                                 bounds=dict(lines=3, skeleton=name, values="10 representative values (x 2 x 2 auxiliary values on every 6th skeleton)",
                                             checklines="0..3", store=store, merge_strategy=strat)))
        for fmt, cl in itertools.product(("gff3", "gtf", "gff2"), (0, 3)):
            # ~8 s per path: the gff3-family runs (39 character classes) need most of this budget; an unexhausted run is reported as such
            out.append(XSpec("fidelity[%s,arbitrary character,checklines=%d]" % (fmt, cl), H, "cond_fidelity", "reach_fidelity", timeout=2400,
                             env=dict(VB_FMT=fmt, VB_ARB=1, VB_CL=cl, VB_VLEN=1),
                             bounds=dict(lines=3, value="1 ARBITRARY character in the line outside/inside the inspection window", checklines=cl)))
    return out


def run(tier, seed):
    from vlib.props.c07 import ASSUME
    rep = run_x_property(
        PROP, tier, seed, specs(tier),
        assumptions=ASSUME[1:3] + [
            "the file is 3 lines (gene, mRNA with one extra column, exon with '.' coordinates and two extra columns, no ID) written by the writer model in ONE dialect incl. one file-wide relative key order; every line shows every formatting choice (>= 2 attributes and a two-valued key)",
            "quick tier: the varied value ranges over 10 representative strings and checklines over 0..3 (the per-character generality of parse/print is C07/C08's); thorough adds an arbitrary character and all 48 skeletons x store x strategy",
            "reopen = a new FeatureDB over the committed simsql store; real sqlite durability is outside (counterexamples are replayed with real files)",
        ],
        stand_ins=["simsql", "jsonbox", "fakefs", "unquote_model", "nocache_quoter", "bins_stub", "CrossHair patches vlib/xh_patches.py"],
        functions=["gffutils.create.create_db", "gffutils.iterators._FileIterator._custom_iter", "gffutils.iterators._FileIterator.peek",
                   "gffutils.feature.feature_from_line", "gffutils.parser._split_keyvals", "gffutils.helpers._choose_dialect",
                   "gffutils.create._GFFDBCreator._populate_from_lines", "gffutils.create._GTFDBCreator._populate_from_lines",
                   "gffutils.create._DBCreator._insert", "gffutils.feature.Feature.astuple", "gffutils.create._DBCreator._finalize",
                   "gffutils.interface.FeatureDB.__init__", "gffutils.interface.FeatureDB.all_features", "gffutils.interface.FeatureDB._feature_returner",
                   "gffutils.feature.Feature.__unicode__", "gffutils.parser._reconstruct"],
    )
    return rep.finish()
