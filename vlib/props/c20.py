"""C20 - concurrent imports are independent and leave no temp files.

Decided here (DESIGN.md C20): (1) Engine X - for every path of one import over the fakefs stand-in every temporary
file is created through the tempfile API, written, closed, read, removed; (2) a z3 interleaving model: the file
event trace of the real import (taken from the fakefs log in this run) is instantiated for k <= 3 processes with
SYMBOLIC file names constrained only by mkstemp's contract and symbolic event times respecting program order; the
solver looks for an interleaving and a naming in which a process reads bytes another wrote, loses its file, or a
file is left behind.  OS scheduling, sqlite locking and concurrent readers of one database are outside."""
import os
import subprocess
import time

import z3

from vlib.runner import Cond, PY, REPO, VERIF, XSpec, run_x_property

PROP = "C20"
H = "vlib.harness.c20"


def specs(tier):
    out = []
    for gtf in (0, 1):
        for fs in (0, 1):
            for k0 in range(4):
                for st in ((0,) if tier == "quick" else (0, 1)):
                    out.append(XSpec("temp-file hygiene[%s,%s,first line kind %d,%s]" % ("GTF" if gtf else "GFF3", "from_string" if fs else "path", k0,
                                                                                         "create_unique" if st == 0 else "merge"),
                                     H, "cond_hygiene", "reach_hygiene", timeout=1200 if tier == "quick" else 3000,
                                     env=dict(VB_GTF=gtf, VB_FS=fs, VB_K0=k0, VB_ST=st),
                                     bounds=dict(importer="GTF" if gtf else "GFF3", lines="3, each one of 4 kinds (incl. comment; CDS-only / codon-only GTF)",
                                                 flags="disable_infer_genes/transcripts symbolic (GTF)", input="from_string" if fs else "path")))
    return out


def _traces():
    """file event traces of real imports, produced in a subprocess over fakefs"""
    code = ("import json\nfrom vlib.harness import c20\nout={}\n"
            "for fmt in ('gff','gtf'):\n  for fs in (False, True):\n    t,inp=c20.trace(fmt, fs)\n    out['%s,%s'%(fmt,'from_string' if fs else 'path')]=[list(e) for e in t]\n"
            "print('TRACES '+json.dumps(out))\n")
    e = dict(os.environ, PYTHONPATH=VERIF + os.pathsep + REPO, VB_TRACE="1", VERIF_SYMBOLIC="0")
    p = subprocess.run([PY, "-c", code], env=e, capture_output=True, text=True, timeout=300, cwd=VERIF)
    import json
    for line in p.stdout.splitlines():
        if line.startswith("TRACES "):
            return json.loads(line[7:])
    raise RuntimeError("no traces: " + p.stderr[-500:])


def interleaving_cond(name, trace, k):
    """k processes each performing `trace`; names symbolic; -> Cond"""
    t0 = time.time()
    c = Cond("interleaving[%s,%d processes]" % (name, k), "S:z3 interleaving model over the real import's file trace",
             {"processes": k, "events_per_process": len(trace), "names": "symbolic, constrained by mkstemp's uniqueness contract only",
              "schedule": "any interleaving respecting program order"})
    files = sorted(set(e[1] for e in trace))
    via_tempfile = set(e[1] for e in trace if e[0] == "create")
    s = z3.Solver()
    T, N = {}, {}
    for p in range(k):
        for i in range(len(trace)):
            T[p, i] = z3.Int("t_%d_%d" % (p, i))
            s.add(T[p, i] >= 0)
            if i:
                s.add(T[p, i - 1] < T[p, i])
        for f in files:
            # a name not obtained from tempfile is a function of program state only: the same in every process
            N[p, f] = z3.Int("name_%d_%s" % (p, f.replace("/", "_"))) if f in via_tempfile else z3.IntVal(1000 + files.index(f))
    allt = [T[x] for x in T]
    s.add(z3.Distinct(allt))

    def idx(kind, f):
        return [i for i, e in enumerate(trace) if e[0] == kind and e[1] == f]

    # mkstemp contract: a new name differs from every name that exists at creation time
    for p in range(k):
        for f in via_tempfile:
            ci = idx("create", f)[0]
            for q in range(k):
                for g in files:
                    if (q, g) == (p, f):
                        continue
                    born = idx("create", g) or idx("open-w", g)
                    dead = idx("unlink", g)
                    exists = T[q, born[0]] < T[p, ci] if born else z3.BoolVal(True)   # e.g. the input file: there from the start
                    if dead:
                        exists = z3.And(exists, T[p, ci] < T[q, dead[0]])
                    s.add(z3.Implies(exists, N[p, f] != N[q, g]))
    bad = []
    for p in range(k):
        for f in files:
            for ri in idx("open-r", f):
                # p reads its file f at T[p,ri]: some other process q has (re)written a file of the same name after p's
                # own last close and before the read, or removed it
                own_close = [i for i in idx("close", f) if i < ri]
                for q in range(k):
                    if q == p:
                        continue
                    for g in files:
                        for wi in idx("open-w", g) + idx("unlink", g):
                            cond = z3.And(N[q, g] == N[p, f], T[q, wi] < T[p, ri])
                            if own_close:
                                cond = z3.And(cond, T[p, own_close[-1]] < T[q, wi] if trace[wi][0] == "unlink" else
                                              T[p, (idx("open-w", f) or [0])[0]] < T[q, wi])
                            bad.append(cond)
            # leak: created/written but never removed
            if (idx("create", f) or idx("open-w", f)) and not idx("unlink", f) and not f.endswith(".db") and "/in" not in f:
                bad.append(z3.BoolVal(True))
    s.add(z3.Or(bad) if bad else z3.BoolVal(False))
    r = str(s.check())
    c.queries, c.paths = 1, 1
    c.solver_s = c.wall_s = time.time() - t0
    if r == "unsat":
        c.outcome = "confirmed"
    elif r == "sat":
        c.outcome = "counterexample"
        m = s.model()
        sched = sorted(((m.eval(T[p, i]).as_long(), p, trace[i]) for p in range(k) for i in range(len(trace))))
        c.cex = dict(kind="c20", trace=name, processes=k, schedule=[(p, e) for _, p, e in sched][:40])
        c.detail = "interleaving/naming found in which a process reads foreign bytes, loses its file or leaves one behind"
    else:
        c.detail = "solver: " + r
    c.samples = [dict(trace=trace[:8])]
    return c


def replay_names(fmt):
    """real stack: two forked processes import at the same time into one shared temp dir with _keep_tempfiles;
    afterwards each must have used its own intermediate file (distinct names)"""
    code = r'''
import os, sys, tempfile, multiprocessing, shutil
import gffutils
d = tempfile.mkdtemp(prefix="verif-c20-")
tempfile.tempdir = d
GFF = "c\ts\tgene\t1\t90\t.\t+\t.\tID=g0\nc\ts\tmRNA\t2\t80\t.\t+\t.\tID=m0;Parent=g0\nc\ts\texon\t3\t9\t.\t+\t.\tParent=m0\n"
GTF = 'c\ts\texon\t3\t9\t.\t+\t.\tgene_id "g"; transcript_id "t";\nc\ts\tCDS\t4\t8\t.\t+\t0\tgene_id "g"; transcript_id "t";\n'
text = GTF if sys.argv[1] == "gtf" else GFF
inp = os.path.join(d, "input.txt")
open(inp, "w").write(text)
def work(i):
    gffutils.create_db(inp, os.path.join(d, "out%d.db" % i), _keep_tempfiles=True)
ctx = multiprocessing.get_context("fork")
ps = [ctx.Process(target=work, args=(i,)) for i in range(2)]
[p.start() for p in ps]; [p.join() for p in ps]
left = sorted(f for f in os.listdir(d) if f.endswith(".gffutils"))
print("KEPT", len(left), left)
shutil.rmtree(d, ignore_errors=True)
'''
    e = dict(os.environ, PYTHONPATH=REPO)
    p = subprocess.run([PY, "-c", code, fmt], env=e, capture_output=True, text=True, timeout=300)
    for line in p.stdout.splitlines():
        if line.startswith("KEPT "):
            n = int(line.split()[1])
            return (n == 2), "two forked imports into one temp dir used %d distinct intermediate file name(s): %s" % (n, line[5:])
    return None, "replay failed: " + p.stderr[-400:]


def run(tier, seed):
    extra = []
    try:
        traces = _traces()
        for name, tr in sorted(traces.items()):
            for k in ((2,) if tier == "quick" else (2, 3)):
                extra.append(interleaving_cond(name, [tuple(e) for e in tr], k))
    except Exception as ex:
        c = Cond("interleaving[traces]", "S:z3")
        c.outcome, c.detail = "error", "could not obtain the import's file trace: %s" % ex
        extra.append(c)
    rep = run_x_property(
        PROP, tier, seed, specs(tier), extra_conds=[],
        assumptions=["temp-directory protocol only: OS scheduling, sqlite file locking and several readers of one finished database are NOT decided (no Python source to encode)",
                     "mkstemp/NamedTemporaryFile contract: a returned name does not exist at creation time; a name computed any other way is treated as identical across processes",
                     "every process performs the file event trace observed from the real import in this run (regenerated from /repo each time)"],
        stand_ins=["fakefs (event log)", "simsql", "jsonbox", "bins_stub", "nocache_quoter"],
        functions=["gffutils.create.create_db", "gffutils.create._GFFDBCreator._update_relations", "gffutils.create._GTFDBCreator._update_relations",
                   "gffutils.iterators.DataIterator", "gffutils.iterators._FileIterator._custom_iter"],
    )
    for c in extra:
        rep.add(c)
        if c.outcome == "counterexample":
            fmt = "gtf" if c.cex["trace"].startswith("gtf") else "gff"
            ok, txt = replay_names(fmt)
            leak = any(True for _ in [0] if "leaves one behind" in c.detail)
            if ok is False:
                rep.violation(c.name, dict(c.cex), txt)
            else:
                # a leak shows in the single-process Engine-X condition; a naming collision must show in the forked replay
                c.outcome = "error"
                c.detail += " | forked replay: " + str(txt)
    return rep.finish()
