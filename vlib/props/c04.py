"""C04 - primary keys follow id_spec, are unique, look-ups exact (Engine X)."""
from vlib.runner import XSpec, run_x_property

PROP = "C04"
H = "vlib.harness.c04"
SPECS = ["str", "list", "tuple", "dict-str", "dict-list", "dict-missing", "seqid", "source", "callable-none", "callable-str",
         "callable-auto", "mixed"]


def specs(tier):
    out = []
    for sp in SPECS:
        parts = [(a, b) for a in range(3) for b in range(3)]
        if sp in ("seqid", "source", "callable-none", "callable-auto", "dict-missing"):
            parts = [(-1, -1)]
        for a0, b0 in parts:
            env = dict(VB_SPEC=sp, VB_A0=a0, VB_B0=b0, VB_LASTBARE=1 if (tier == "quick" and (a0, b0) != (-1, -1)) else 0)
            out.append(XSpec("id_handler[%s,feature0 has %s ID / %s Name values]" % (sp, a0 if a0 >= 0 else "any", b0 if b0 >= 0 else "any"),
                             H, "cond_handler", "reach_handler", timeout=400 if tier == "quick" else 1500, env=env,
                             bounds=dict(id_spec=sp, features=3, id_and_name_values="0-2 each, arbitrary strings <=1 char",
                                         featuretype="gene|exon", third_feature="no ID/Name" if env["VB_LASTBARE"] else "free")))
    hases = ("111", "110", "010", "000") if tier == "quick" else ("000", "100", "010", "110", "011", "111", "101", "001")
    for fmt in ("gff3", "gtf"):
        for has in hases:
            for i0 in ("a", "b", "c"):
                if tier == "quick" and i0 == "c":
                    continue    # by symmetry of b and c in the alphabet; covered in the thorough tier
                out.append(XSpec("db-keys[%s default id_spec,id present=%s,first id=%s]" % (fmt, has, i0), H, "cond_db", "reach_db",
                                 timeout=600, env=dict(VB_FORMAT=fmt, VB_HAS=has, VB_I0=i0, VB_FEWPROBES=1 if tier == "quick" else 0),
                                 bounds=dict(features=3, ids="from (a,b,c), duplicates resolved by create_unique",
                                             probe_key="5 (thorough 8) candidates incl. absent ones", format=fmt)))
    return out


def run(tier, seed):
    rep = run_x_property(
        PROP, tier, seed, specs(tier),
        assumptions=["unit level: the real _DBCreator._id_handler on a creator object without a database; featuretype from {gene, exon} (the counters hash it); id/Name values arbitrary strings",
                     "'first listed attribute that is present' = present with at least one value",
                     "database level: ids from a finite alphabet (a duplicate id is hashed by the counter dict); the collision of a natural id with a GENERATED key (x_1) is examined under C05",
                     "callable 'autoincrement:X' bases rotate over %s" % (("X", "chr1:gene", "chr1:mRNA", "a_b"),)],
        stand_ins=["simsql", "jsonbox", "fakefs", "bins_stub", "nocache_quoter"],
        functions=["gffutils.create._DBCreator._id_handler", "gffutils.create._DBCreator._increment_featuretype_autoid",
                   "gffutils.create.create_db", "gffutils.create._GFFDBCreator._populate_from_lines", "gffutils.create._GTFDBCreator._populate_from_lines",
                   "gffutils.create._DBCreator._do_merge", "gffutils.interface.FeatureDB.__getitem__"],
    )
    return rep.finish()
