"""C16 - merge(): run accumulation, partition, extents, fresh ids, inputs untouched (Engine X)."""
from vlib.runner import XSpec, run_x_property

PROP = "C16"
CRITS = ["default", "end", "end+seqid", "start", "any", "any+seqid+strand", "exact", "exact+type", "end_thr",
         "start_thr", "any_thr", "single", "custom"]


def specs(tier):
    out = []
    if tier == "quick":
        for cr in CRITS:
            for mode in ("geom", "fields"):
                out.append(XSpec("merge[%s,%s,k=3]" % (cr, mode), "vlib.harness.c16", "cond_merge", "reach_merge", timeout=150,
                                 env=dict(VB_K=3, VB_L=4, VB_CRIT=cr, VB_MODE=mode, VB_T=2),
                                 bounds=dict(k=3, max_len=4, positions="unbounded int", criteria=cr, mode=mode,
                                             threshold="0..2" if ("thr" in cr or cr == "custom") else "n/a")))
    else:
        for cr in CRITS:
            out.append(XSpec("merge[%s,full,k=3]" % cr, "vlib.harness.c16", "cond_merge", "reach_merge", timeout=900,
                             env=dict(VB_K=3, VB_L=4, VB_CRIT=cr, VB_MODE="full", VB_T=2),
                             bounds=dict(k=3, max_len=4, positions="unbounded int", criteria=cr, mode="full")))
            out.append(XSpec("merge[%s,geom,k=4]" % cr, "vlib.harness.c16", "cond_merge", "reach_merge", timeout=900,
                             env=dict(VB_K=4, VB_L=6, VB_CRIT=cr, VB_MODE="geom", VB_T=3),
                             bounds=dict(k=4, max_len=6, positions="unbounded int", criteria=cr, mode="geom")))
    # database side: children_bp and merge_all over simsql
    HD = "vlib.harness.c16db"
    for s1 in (2, 3, 4):
        for crit in ("default", "nostrand"):
            out.append(XSpec("children_bp[merge=True,%s criteria,second exon starts at %d]" % (crit, s1), HD, "cond_bp", "reach_bp", timeout=1200,
                             env=dict(VB_CRIT=crit, VB_S1=s1, VB_FLAG=1),
                             bounds=dict(exons="3: first at 1 on '+', starts increasing up to 6", lengths="1..3 / 1..2 / 1", strands="+/- for exons 2,3", criteria=crit)))
        out.append(XSpec("children_bp[merge=False,second exon starts at %d]" % s1, HD, "cond_bp", "reach_bp", timeout=1200,
                         env=dict(VB_CRIT="default", VB_S1=s1, VB_FLAG=0), bounds=dict(exons=3, merge=False)))
        for ex in (0, 1):
            out.append(XSpec("merge_all[exclude_components=%d,second exon starts at %d]" % (ex, s1), HD, "cond_all", "reach_all", timeout=1500,
                             env=dict(VB_S1=s1, VB_FLAG=ex),
                             bounds=dict(exons="3: first at 1 on '+', starts increasing up to 6", strands="+/- for exons 2,3", exclude_components=bool(ex))))
    return out


def run(tier, seed):
    rep = run_x_property(
        PROP, tier, seed, specs(tier),
        assumptions=[
            "inputs are start-ordered (the statement's precondition); feature lengths bounded (Feature.__len__ is used for truthiness), positions unbounded",
            "seqid/strand/featuretype range over two values each (the criteria and merge() use them through equality only)",
            "quick tier separates geometry (fields equal) from field mixtures (geometry fixed); the thorough tier takes the product",
            "children_bp / merge_all: one mRNA with 3 exons (distinct starts in 1..5, lengths 1..3, either strand) over simsql; oracle = the same run-accumulation rule; merge_all must store one fresh feature per multi-member run and relate (or delete) exactly its members",
        ],
        stand_ins=["FeatureDB object without a connection (merge never touches the database)", "simsql/jsonbox/fakefs/bins_stub (children_bp, merge_all)"],
        functions=["gffutils.interface.FeatureDB.merge", "gffutils.interface._finalize_merge", "gffutils.merge_criteria.*",
                   "gffutils.feature.Feature.__init__", "gffutils.feature.Feature.__len__", "gffutils.interface.FeatureDB._feature_returner"],
    )
    return rep.finish()
