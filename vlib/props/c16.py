"""C16 - merge(): run accumulation, partition, extents, fresh ids, inputs untouched (Engine X)."""
from vlib.runner import XSpec, run_x_property

PROP = "C16"
CRITS = ["default", "end", "end+seqid", "start", "any", "any+seqid+strand", "exact", "exact+type", "end_thr",
         "start_thr", "any_thr", "single", "custom"]


def specs(tier):
    out = []
    if tier == "quick":
        for cr in CRITS:
            for mode in ("geom", "fields"):
                out.append(XSpec("merge[%s,%s,k=3]" % (cr, mode), "vlib.harness.c16", "cond_merge", "reach_merge", timeout=150,
                                 env=dict(VB_K=3, VB_L=4, VB_CRIT=cr, VB_MODE=mode, VB_T=2),
                                 bounds=dict(k=3, max_len=4, positions="unbounded int", criteria=cr, mode=mode,
                                             threshold="0..2" if ("thr" in cr or cr == "custom") else "n/a")))
    else:
        for cr in CRITS:
            out.append(XSpec("merge[%s,full,k=3]" % cr, "vlib.harness.c16", "cond_merge", "reach_merge", timeout=900,
                             env=dict(VB_K=3, VB_L=4, VB_CRIT=cr, VB_MODE="full", VB_T=2),
                             bounds=dict(k=3, max_len=4, positions="unbounded int", criteria=cr, mode="full")))
            out.append(XSpec("merge[%s,geom,k=4]" % cr, "vlib.harness.c16", "cond_merge", "reach_merge", timeout=900,
                             env=dict(VB_K=4, VB_L=6, VB_CRIT=cr, VB_MODE="geom", VB_T=3),
                             bounds=dict(k=4, max_len=6, positions="unbounded int", criteria=cr, mode="geom")))
    return out


def run(tier, seed):
    rep = run_x_property(
        PROP, tier, seed, specs(tier),
        assumptions=[
            "inputs are start-ordered (the statement's precondition); feature lengths bounded (Feature.__len__ is used for truthiness), positions unbounded",
            "seqid/strand/featuretype range over two values each (the criteria and merge() use them through equality only)",
            "quick tier separates geometry (fields equal) from field mixtures (geometry fixed); the thorough tier takes the product",
            "children_bp / merge_all (database side) are decided in the C16-db conditions when present",
        ],
        stand_ins=["FeatureDB object without a connection (merge never touches the database)"],
        functions=["gffutils.interface.FeatureDB.merge", "gffutils.interface._finalize_merge", "gffutils.merge_criteria.*",
                   "gffutils.feature.Feature.__init__", "gffutils.feature.Feature.__len__", "gffutils.interface.FeatureDB._feature_returner"],
    )
    return rep.finish()
