"""Logic helpers that work on z3 terms or on plain Python values (so one specification text is
used both for the SMT query and for the concrete replay of a model)."""
import z3


def _sym(*xs):
    return any(isinstance(x, z3.ExprRef) for x in xs)


def _b(x):
    return x if isinstance(x, z3.ExprRef) else z3.BoolVal(bool(x))


def And(*xs):
    if _sym(*xs):
        return z3.And([_b(x) for x in xs])
    return all(xs)


def Or(*xs):
    if _sym(*xs):
        return z3.Or([_b(x) for x in xs])
    return any(xs)


def Not(x):
    return z3.Not(x) if _sym(x) else (not x)


def Implies(a, b):
    if _sym(a, b):
        return z3.Implies(_b(a), _b(b))
    return (not a) or b


def Iff(a, b):
    if _sym(a, b):
        return _b(a) == _b(b)
    return bool(a) == bool(b)


def div(a, k):
    return a / k if _sym(a) else a // k
