"""Environment stand-ins (DESIGN.md section 3.3).  Installed by injecting into the namespaces of the
gffutils modules - /repo is never edited.  Every harness lists the ones it uses."""
import importlib
import io
import types

from vlib import simsql

_SAVED = {}


def _mods():
    return {n: importlib.import_module("gffutils." + n) for n in
            ("create", "interface", "iterators", "helpers", "feature", "parser", "bins", "constants")}


def _set(mod, name, value):
    key = (mod.__name__, name)
    if key not in _SAVED:
        _SAVED[key] = mod.__dict__.get(name, _SAVED)  # _SAVED as 'absent' marker
    setattr(mod, name, value)


def restore():
    for (mname, name), old in list(_SAVED.items()):
        mod = importlib.import_module(mname)
        if old is _SAVED:
            if name in mod.__dict__:
                delattr(mod, name)
        else:
            setattr(mod, name, old)
    _SAVED.clear()


# ---- sqlite3 -> simsql -------------------------------------------------------------------------
def install_simsql():
    m = _mods()
    _set(m["create"], "sqlite3", simsql)
    _set(m["interface"], "sqlite3", simsql)


# ---- bins stub ---------------------------------------------------------------------------------
def _bins_stub(start, stop, fmt="gff", one=True):
    if start is None or stop is None:
        raise TypeError("unorderable")
    return 0 if one else {0}


def install_bins_stub():
    m = _mods()
    _set(m["bins"], "bins", _bins_stub)


# ---- json: opaque boxes ------------------------------------------------------------------------
class JsonBox:
    """loads(dumps(x)) == normalise(x); the text is an opaque handle '@<n>' (jsonbox contract)"""

    def __init__(self):
        self.box = []

    def _norm(self, x):
        if isinstance(x, dict) or (hasattr(x, "items") and hasattr(x, "keys")):
            return {k: self._norm(v) for k, v in x.items()}
        if isinstance(x, (list, tuple)):
            return [self._norm(v) for v in x]
        if x is None or isinstance(x, (str, int, float, bool)):
            return x
        raise TypeError("Object of type %s is not JSON serializable" % type(x).__name__)

    def dumps(self, x):
        self.box.append(self._norm(x))
        return "@%d" % (len(self.box) - 1)

    def loads(self, s):
        import simplejson
        if not (isinstance(s, str) and len(s) > 1 and s[0] == "@"):
            raise simplejson.JSONDecodeError("not a jsonbox handle", str(s), 0)
        return self._norm(self.box[int(s[1:])])


JSONBOX = JsonBox()


class _JsonModule:
    """stands in for the `json` (simplejson) module object inside gffutils.helpers: the repository's own
    _jsonify/_unjsonify code runs, only the library call is boxed"""

    def __init__(self):
        import simplejson
        self.JSONDecodeError = simplejson.JSONDecodeError

    def dumps(self, obj, separators=None, sort_keys=False, **kw):
        if kw:
            raise TypeError("jsonbox: unsupported dumps() options %r" % sorted(kw))
        if sort_keys and hasattr(obj, "items"):
            obj = {k: obj[k] for k in sorted(obj.keys())}
        return JSONBOX.dumps(obj)

    def loads(self, s, **kw):
        if kw:
            raise TypeError("jsonbox: unsupported loads() options %r" % sorted(kw))
        return JSONBOX.loads(s)


def install_jsonbox():
    m = _mods()
    _set(m["helpers"], "json", _JsonModule())


# ---- parser.quoter without its cache -------------------------------------------------------------
def install_nocache_quoter():
    P = _mods()["parser"]

    class NoCacheQuoter(P.Quoter):
        def __setitem__(self, k, v):
            pass

        def __getitem__(self, k):
            return P.Quoter.__missing__(self, k)

    _set(P, "quoter", NoCacheQuoter())


# ---- urllib.parse.unquote model --------------------------------------------------------------------
_HEX = "0123456789ABCDEFabcdef"


def unquote_model(s):
    """%XY with X in 0-7 -> chr(0xXY); everything else verbatim.  Inputs containing %[89A-Fa-f]. are
    excluded by harness preconditions (multi-byte UTF-8 decoding is outside the model)."""
    if "%" not in s:
        return s
    out = []
    i = 0
    n = len(s)
    while i < n:
        c = s[i]
        if c == "%" and i + 2 < n + 0 and s[i + 1] in "01234567" and s[i + 2] in _HEX:
            out.append(chr(int(s[i + 1:i + 3], 16)))
            i += 3
        else:
            out.append(c)
            i += 1
    return "".join(out)


def unquote_plus_model(s):
    """urllib.parse.unquote_plus: '+' -> ' ' first, then unquote"""
    out = ""
    for c in s:
        out += " " if c == "+" else c
    return unquote_model(out)


def install_unquote_model():
    P = _mods()["parser"]
    ns = types.SimpleNamespace(parse=types.SimpleNamespace(unquote=unquote_model, unquote_plus=unquote_plus_model))
    _set(P, "urllib", ns)


# ---- fake file system -----------------------------------------------------------------------------
class FakeFS:
    def __init__(self):
        self.files = {}
        self.log = []
        self.counter = 0
        self.open_writers = set()

    def reset(self):
        self.files.clear()
        del self.log[:]
        self.counter = 0
        self.open_writers.clear()


FS = FakeFS()


class _Writer:
    """pure-Python text sink (io.StringIO is C and would concretise symbolic text)"""
    binary = False

    def __init__(self, name):
        self.name = name
        self.chunks = []
        self.closed = False
        FS.open_writers.add(name)

    def write(self, data):
        if self.binary:
            data = data.decode("utf-8")
        self.chunks.append(data)
        return len(data)

    def flush(self):
        pass

    def close(self):
        if not self.closed:
            FS.files[self.name] = "".join(self.chunks)
            FS.open_writers.discard(self.name)
            FS.log.append(("close", self.name))
            self.closed = True

    def __enter__(self):
        return self

    def __exit__(self, *a):
        self.close()


class _BWriter(_Writer):
    binary = True


class _LineReader:
    """iterates the lines of an in-memory file without realising its content"""

    def __init__(self, name, text, binary=False):
        self.name = name
        self._lines = text if isinstance(text, list) else _split_keepends(text)
        self._binary = binary
        self.closed = False

    def __iter__(self):
        for l in self._lines:
            yield l.encode("utf-8") if self._binary else l

    def read(self):
        return "".join(self._lines)

    def readlines(self):
        return list(self)

    def close(self):
        self.closed = True

    def __enter__(self):
        return self

    def __exit__(self, *a):
        self.close()


def _split_keepends(text):
    out = []
    cur = 0
    n = len(text)
    while cur < n:
        j = text.find("\n", cur)
        if j < 0:
            out.append(text[cur:])
            break
        out.append(text[cur:j + 1])
        cur = j + 1
    return out


def fake_open(name, mode="r", *a, **k):
    if "w" in mode:
        FS.log.append(("open-w", name))
        FS.files[name] = ""
        return _BWriter(name) if "b" in mode else _Writer(name)
    FS.log.append(("open-r", name))
    if name not in FS.files and name not in simsql.STORES:
        raise FileNotFoundError(name)
    if name in FS.open_writers:
        FS.log.append(("read-before-close", name))
    return _LineReader(name, FS.files[name], binary=("b" in mode))


class _NamedTemporaryFile:
    def __init__(self, mode="w+b", delete=True, suffix="", prefix="tmp", dir=None, **k):
        FS.counter += 1
        self.name = "/faketmp/%s%06d%s" % (prefix, FS.counter, suffix or "")
        assert self.name not in FS.files  # mkstemp's O_EXCL contract
        FS.files[self.name] = ""
        FS.log.append(("create", self.name))
        self._w = _BWriter(self.name) if "b" in mode else _Writer(self.name)
        FS.open_writers.discard(self.name)  # an open NamedTemporaryFile handle holding no data yet

    def write(self, data):
        FS.open_writers.add(self.name)
        return self._w.write(data)

    def close(self):
        self._w.close()

    def flush(self):
        pass

    def __enter__(self):
        return self

    def __exit__(self, *a):
        self.close()


class _FakePath:
    import os.path as _p
    join = staticmethod(_p.join)
    basename = staticmethod(_p.basename)
    dirname = staticmethod(_p.dirname)
    abspath = staticmethod(_p.abspath)

    @staticmethod
    def exists(p):
        return p in FS.files or p in simsql.STORES

    @staticmethod
    def isfile(p):
        return p in FS.files or p in simsql.STORES

    @staticmethod
    def expanduser(p):
        return p


class _FakeOS:
    path = _FakePath

    @staticmethod
    def unlink(p):
        FS.log.append(("unlink", p))
        if p in FS.files:
            del FS.files[p]
        elif p in simsql.STORES:
            del simsql.STORES[p]
        else:
            raise FileNotFoundError(p)

    remove = unlink


class _FakeGzip:
    @staticmethod
    def open(name, mode="rb"):
        FS.log.append(("open-r", name))
        return _LineReader(name, FS.files[name], binary=True)


class _FakeShutil:
    @staticmethod
    def copy2(src, dst):
        FS.log.append(("copy", src, dst))
        if src in simsql.STORES:
            simsql.STORES[dst] = simsql.STORES[src].copy()
        elif src in FS.files:
            FS.files[dst] = FS.files[src]
        else:
            raise FileNotFoundError(src)
        return dst


def install_fakefs():
    m = _mods()
    tf = types.SimpleNamespace(NamedTemporaryFile=_NamedTemporaryFile)
    for name in ("create", "iterators", "interface"):
        _set(m[name], "os", _FakeOS)
    _set(m["create"], "tempfile", tf)
    _set(m["create"], "open", fake_open)
    _set(m["iterators"], "tempfile", tf)
    _set(m["iterators"], "open", fake_open)
    _set(m["interface"], "shutil", _FakeShutil)
    import sys
    # iterators.open_function does `import gzip` locally: the import statement consults sys.modules
    sys.modules["gzip"] = _FakeGzip


def install_quiet_stderr():
    """create.py writes progress to sys.stderr inside the GTF importer; keep it out of the way"""
    m = _mods()

    class _Null:
        def write(self, *_):
            pass

        def flush(self):
            pass

    _set(m["create"], "sys", types.SimpleNamespace(stderr=_Null()))
