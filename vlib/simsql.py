"""simsql: a small pure-Python stand-in for the `sqlite3` module, for Engine X.

CrossHair concretises every value that crosses into the C sqlite3 module.  This stand-in
interprets the SQL subset gffutils emits (parsed by vlib/sqlfe.py) over tables that are plain
Python lists whose cells may be symbolic, so values stay symbolic through a whole
create_db / FeatureDB round trip.

Contract implemented (everything else raises NotImplementedError -> HARNESS-ERROR):
  * INSERT [OR IGNORE|OR REPLACE], UPDATE .. WHERE, DELETE .. WHERE, SELECT [DISTINCT] with JOIN .. ON,
    WHERE, ORDER BY (per-term ASC/DESC), sub-select in FROM and IN, MIN/MAX/count(),
    = == != < <= > >=, AND/OR/NOT, IN, + - *, ? and :name parameters
  * PRIMARY KEY uniqueness -> IntegrityError; CREATE TABLE on an existing table -> OperationalError
  * rowid = max(rowid)+1; un-ORDERed scans return rows in rowid order
  * three-valued logic for NULL; NULLs sort first; INTEGER < TEXT in comparisons
  * connections work on a private copy of the store; commit() publishes it (what a second
    connection / a reopen / a file copy sees)
No hashing of cell values anywhere (symbolic strings must not be realised): DISTINCT and key
checks are pairwise comparisons.
"""
import sqlite3 as _real

from vlib import sqlfe

IntegrityError = _real.IntegrityError
ProgrammingError = _real.ProgrammingError
OperationalError = _real.OperationalError
Row = _real.Row  # only used as a marker by gffutils (conn.row_factory = sqlite3.Row)
sqlite_version_info = _real.sqlite_version_info
sqlite_version = _real.sqlite_version

STORES = {}  # path -> committed Store
LOG = []  # (path, kind, sql) of every statement executed (for C19 / C09 observations)


def reset():
    STORES.clear()
    del LOG[:]


class Table:
    def __init__(self, name, cols, types, pk):
        self.name, self.cols, self.types, self.pk = name, list(cols), list(types), list(pk)
        self.rows = []  # each row: [rowid, v0, v1, ...]
        self.next_rowid = 1

    def copy(self):
        t = Table(self.name, self.cols, self.types, self.pk)
        t.rows = [list(r) for r in self.rows]
        t.next_rowid = self.next_rowid
        return t


class Store:
    def __init__(self):
        self.tables = {}
        self.indexes = []
        self.analyzed = False

    def copy(self):
        s = Store()
        s.tables = {k: t.copy() for k, t in self.tables.items()}
        s.indexes = list(self.indexes)
        s.analyzed = self.analyzed
        return s


class ResultRow:
    """what gffutils needs from sqlite3.Row: keys(), [name], [index], iteration, len"""

    def __init__(self, names, values):
        self._names, self._values = names, values

    def keys(self):
        return list(self._names)

    def __getitem__(self, k):
        if isinstance(k, int):
            return self._values[k]
        for i, n in enumerate(self._names):
            if n == k:
                return self._values[i]
        raise IndexError("No item with that key")

    def __iter__(self):
        return iter(self._values)

    def __len__(self):
        return len(self._values)

    def __repr__(self):
        return "<Row %r>" % (list(zip(self._names, self._values)),)


# ---------------------------------------------------------------------------------------------
# value semantics
# ---------------------------------------------------------------------------------------------
def _isnum(v):
    return isinstance(v, int) and not isinstance(v, bool) or isinstance(v, float)


def _cmp3(op, a, b):
    """three-valued comparison: True / False / None"""
    if a is None or b is None:
        return None
    an, bn = _isnum(a), _isnum(b)
    if an != bn:
        # INTEGER sorts before TEXT
        lt, eq = an, False
    else:
        eq = a == b
        lt = (a < b) if not eq else False
    if op == "=":
        return eq
    if op == "!=":
        return not eq
    if op == "<":
        return lt
    if op == "<=":
        return lt or eq
    if op == ">":
        return (not lt) and (not eq)
    if op == ">=":
        return not lt
    raise NotImplementedError("operator %s" % op)


def _and3(a, b):
    if a is False or b is False:
        return False
    if a is None or b is None:
        return None
    return True


def _or3(a, b):
    if a is True or b is True:
        return True
    if a is None or b is None:
        return None
    return False


def _not3(a):
    return None if a is None else (not a)


def _truth(v):
    if v is None or v is True or v is False:
        return v
    if _isnum(v):
        return v != 0
    raise NotImplementedError("text used as a truth value")


def _same(a, b):
    """IS-equality used for DISTINCT / primary keys (NULLs are distinct for PK, equal for DISTINCT)"""
    if a is None or b is None:
        return a is None and b is None
    if _isnum(a) != _isnum(b):
        return False
    return a == b


def _before(a, b):
    """strict ordering for ORDER BY: NULL < numbers < text"""
    if a is None:
        return b is not None
    if b is None:
        return False
    an, bn = _isnum(a), _isnum(b)
    if an != bn:
        return an
    return a < b


def _affinity(v, typ):
    """column affinity on store: text columns keep text, ints stay ints (gffutils binds the right types;
    anything else is outside the model)"""
    return v


# ---------------------------------------------------------------------------------------------
class _Scope:
    """alias -> (colnames, rowvalues incl. rowid at index 0)"""

    def __init__(self, parent=None):
        self.entries = []
        self.parent = parent

    def add(self, alias, cols, row):
        self.entries.append((alias, cols, row))

    def lookup(self, table, name):
        hits = []
        for alias, cols, row in self.entries:
            if table is not None and alias != table:
                continue
            if name == "rowid" and row is not None and "rowid" not in cols:
                if table is not None or len(self.entries) == 1:
                    hits.append(row[0])
                    continue
            for i, c in enumerate(cols):
                if c == name:
                    hits.append(row[i + 1])
        if len(hits) == 1:
            return hits[0]
        if not hits and self.parent is not None:
            return self.parent.lookup(table, name)
        if not hits:
            raise OperationalError("no such column: %s" % (name if table is None else table + "." + name))
        raise OperationalError("ambiguous column name: %s" % name)


class Cursor:
    def __init__(self, conn):
        self.conn = conn
        self._rows = []
        self._pos = 0
        self.rowcount = -1
        self.lastrowid = None

    # -- DB-API
    def execute(self, sql, params=()):
        ast, nparams = sqlfe_parse(sql)
        LOG.append((self.conn.path, ast[0], " ".join(sql.split())))
        self._rows, self._pos = [], 0
        self.rowcount = -1
        if isinstance(params, dict):
            named, pos = params, []
        else:
            named, pos = {}, list(params)
            if nparams != len(pos):
                raise ProgrammingError("Incorrect number of bindings supplied. The current statement uses %d, and "
                                       "there are %d supplied." % (nparams, len(pos)))
        self._exec(ast, pos, named)
        return self

    def executemany(self, sql, seq):
        for p in seq:
            self.execute(sql, p)
        return self

    def executescript(self, script):
        self.conn.commit()
        for stmt in sqlfe.split_script(script):
            self.execute(stmt)
        return self

    def fetchone(self):
        if self._pos < len(self._rows):
            r = self._rows[self._pos]
            self._pos += 1
            return r
        return None

    def fetchall(self):
        r = self._rows[self._pos:]
        self._pos = len(self._rows)
        return r

    def __iter__(self):
        while self._pos < len(self._rows):
            r = self._rows[self._pos]
            self._pos += 1
            yield r

    def close(self):
        pass

    # -- interpreter
    def _exec(self, ast, pos, named):
        k = ast[0]
        st = self.conn.work
        if k == "select":
            names, rows = self._select(ast, pos, named, None)
            self._rows = [ResultRow(names, r) for r in rows]
        elif k == "insert":
            self._insert(ast, pos, named)
        elif k == "update":
            self._update(ast, pos, named)
        elif k == "delete":
            self._delete(ast, pos, named)
        elif k == "create_table":
            self.conn._begin()
            st = self.conn.work
            _, name, cols, types, pk, if_not_exists = ast
            if name in st.tables:
                if not if_not_exists:
                    raise OperationalError("table %s already exists" % name)
            else:
                st.tables[name] = Table(name, cols, types, pk)
        elif k == "create_index":
            self.conn._begin()
            st = self.conn.work
            if ast[1] in st.indexes:
                raise OperationalError("index %s already exists" % ast[1])
            st.indexes.append(ast[1])
        elif k == "drop_index":
            self.conn._begin()
            st = self.conn.work
            if ast[1] in st.indexes:
                st.indexes.remove(ast[1])
        elif k == "analyze":
            self.conn._begin()
            self.conn.work.analyzed = True
        elif k == "pragma":
            pass
        else:
            raise NotImplementedError("statement %r" % (k,))

    def _table(self, name):
        t = self.conn.work.tables.get(name)
        if t is None:
            raise OperationalError("no such table: %s" % name)
        return t

    def _value(self, e, scope, pos, named):
        k = e[0]
        if k == "col":
            return scope.lookup(e[1], e[2])
        if k in ("num", "str"):
            return e[1]
        if k == "null":
            return None
        if k == "param":
            return pos[e[1]]
        if k == "nparam":
            return named[e[1]]
        if k == "neg":
            v = self._value(e[1], scope, pos, named)
            return None if v is None else -v
        if k == "arith":
            a = self._value(e[2], scope, pos, named)
            b = self._value(e[3], scope, pos, named)
            if a is None or b is None:
                return None
            if e[1] == "+":
                return a + b
            if e[1] == "-":
                return a - b
            if e[1] == "*":
                return a * b
            raise NotImplementedError("operator %s" % e[1])
        if k in ("cmp", "and", "or", "not", "in", "insel", "isnull"):
            t = self._truth(e, scope, pos, named)
            return None if t is None else (1 if t else 0)
        raise NotImplementedError("expression %r" % (k,))

    def _truth(self, e, scope, pos, named):
        k = e[0]
        if k == "and":
            a = self._truth(e[1], scope, pos, named)
            if a is False:
                return False
            return _and3(a, self._truth(e[2], scope, pos, named))
        if k == "or":
            a = self._truth(e[1], scope, pos, named)
            if a is True:
                return True
            return _or3(a, self._truth(e[2], scope, pos, named))
        if k == "not":
            return _not3(self._truth(e[1], scope, pos, named))
        if k == "cmp":
            return _cmp3(e[1], self._value(e[2], scope, pos, named), self._value(e[3], scope, pos, named))
        if k == "in":
            v = self._value(e[1], scope, pos, named)
            out = False
            for x in e[2]:
                out = _or3(out, _cmp3("=", v, self._value(x, scope, pos, named)))
                if out is True:
                    return True
            return out
        if k == "insel":
            v = self._value(e[1], scope, pos, named)
            names, rows = self._select(e[2], pos, named, scope)
            out = False
            for r in rows:
                out = _or3(out, _cmp3("=", v, r[0]))
                if out is True:
                    return True
            return out
        if k == "isnull":
            v = self._value(e[1], scope, pos, named)
            return (v is not None) if e[2] else (v is None)
        return _truth(self._value(e, scope, pos, named))

    def _source_rows(self, src, pos, named, outer):
        """-> (alias, cols, list of rows [rowid, v...])"""
        if src[0] == "table":
            if src[1] == "sqlite_master":
                st = self.conn.work
                cols = ["type", "name", "tbl_name", "sql"]
                rows = [[i + 1, "table", n, n, "CREATE TABLE %s" % n] for i, n in enumerate(st.tables)]
                if st.analyzed:
                    rows.append([len(rows) + 1, "table", "sqlite_stat1", "sqlite_stat1", "CREATE TABLE sqlite_stat1(tbl,idx,stat)"])
                return src[2], cols, rows
            t = self._table(src[1])
            return src[2], t.cols, [r for r in t.rows]
        names, rows = self._select(src[1], pos, named, outer)
        return src[2], names, [[i + 1] + list(r) for i, r in enumerate(rows)]

    def _select(self, ast, pos, named, outer):
        _, distinct, items, sources, where, order, limit = ast
        if limit is not None:
            names, rows = self._select(ast[:6] + (None,), pos, named, outer)
            n = self._value(limit, _Scope(outer), pos, named)
            return names, rows[:n] if n >= 0 else rows
        srcs = [self._source_rows(s, pos, named, outer) for s in sources]
        ons = [s[3] for s in sources if s[3] is not None]
        # Nested-loop join.  The order of a join's output is unspecified in SQL; like SQLite's planner we drive
        # from the table that the WHERE clause pins with `col = <parameter>` (for gffutils' relation queries: the
        # relations table), so that code relying on "duplicates are adjacent" style accidents is exposed.
        order_ix = list(range(len(srcs)))
        if len(srcs) == 2 and where is not None:
            pinned = _pinned_aliases(where)
            if srcs[1][0] in pinned and srcs[0][0] not in pinned:
                order_ix = [1, 0]
        combos = [[None] * len(srcs)]
        for idx in order_ix:
            new = []
            for c in combos:
                for r in srcs[idx][2]:
                    cand = list(c)
                    cand[idx] = r
                    new.append(cand)
            combos = new
        scopes = []
        for c in combos:
            sc = _Scope(outer)
            for (a2, c2, _), r2 in zip(srcs, c):
                sc.add(a2, c2, r2)
            ok = True
            for on in ons:
                if self._truth(on, sc, pos, named) is not True:
                    ok = False
                    break
            if not ok:
                continue
            if where is not None and self._truth(where, sc, pos, named) is not True:
                continue
            scopes.append(sc)
        # select list
        names = []
        agg = any(it[0][0] == "func" and it[0][1] in ("min", "max", "count") for it in items)
        for e, alias in items:
            if alias:
                names.append(alias)
            elif e[0] == "col":
                names.append(e[2])
            elif e[0] == "func":
                names.append("%s(%s)" % (e[1], ",".join(a[2] if a[0] == "col" else "*" for a in e[2])))
            elif e[0] == "star":
                names.append("*")
            else:
                names.append("expr")
        if agg:
            return names, [self._aggregate(items, scopes, pos, named)]
        out = []
        for sc in scopes:
            out.append(([self._value(e, sc, pos, named) for e, _ in items], sc))
        if distinct:
            uniq = []
            for vals, sc in out:
                dup = False
                for u, _ in uniq:
                    if all(_same(a, b) for a, b in zip(u, vals)):
                        dup = True
                        break
                if not dup:
                    uniq.append((vals, sc))
            out = uniq
        if order:
            aliases = {}
            for i, (e, alias) in enumerate(items):
                if alias:
                    aliases[alias] = i
            keyed = []
            for vals, sc in out:
                ks = []
                for e, desc in order:
                    if e[0] == "col" and e[1] is None and e[2] in aliases:
                        try:
                            v = sc.lookup(None, e[2])
                        except OperationalError:
                            v = vals[aliases[e[2]]]
                    else:
                        v = self._value(e, sc, pos, named)
                    ks.append(v)
                keyed.append((ks, vals))
            descs = [d for _, d in order]
            out2 = []
            for ks, vals in keyed:  # stable insertion sort (no hashing, symbolic-friendly)
                i = len(out2)
                while i > 0 and _row_before(ks, out2[i - 1][0], descs):
                    i -= 1
                out2.insert(i, (ks, vals))
            return names, [v for _, v in out2]
        return names, [v for v, _ in out]

    def _aggregate(self, items, scopes, pos, named):
        res = []
        # bare columns next to MIN/MAX: SQLite takes them from a row holding the min/max; we take the row
        # that holds the last aggregate's extreme (harnesses only rely on bare columns that agree over the group)
        pick = None
        for e, _ in items:
            if e[0] == "func" and e[1] in ("min", "max"):
                best, bsc = None, None
                for sc in scopes:
                    v = self._value(e[2][0], sc, pos, named)
                    if v is None:
                        continue
                    if best is None or (_before(v, best) if e[1] == "min" else _before(best, v)):
                        best, bsc = v, sc
                res.append(best)
                pick = bsc if bsc is not None else pick
            elif e[0] == "func" and e[1] == "count":
                if not e[2] or e[2][0] == ("star",):
                    res.append(len(scopes))
                else:
                    res.append(sum(1 for sc in scopes if self._value(e[2][0], sc, pos, named) is not None))
            else:
                res.append(("bare", e))
        out = []
        for r in res:
            if isinstance(r, tuple) and len(r) == 2 and r[0] == "bare":
                sc = pick if pick is not None else (scopes[-1] if scopes else None)
                out.append(None if sc is None else self._value(r[1], sc, pos, named))
            else:
                out.append(r)
        return out

    def _pk_conflict(self, t, vals, skip=None):
        if not t.pk:
            return None
        idx = [t.cols.index(c) for c in t.pk]
        for r in t.rows:
            if r is skip:
                continue
            if all(vals[i] is not None and r[i + 1] is not None and _same(r[i + 1], vals[i]) for i in idx):
                return r
        return None

    def _insert(self, ast, pos, named):
        _, table, cols, action, vexprs = ast
        self.conn._begin()
        t = self._table(table)
        sc = _Scope()
        given = [self._value(e, sc, pos, named) for e in vexprs]
        if cols is None:
            if len(given) != len(t.cols):
                raise OperationalError("table %s has %d columns but %d values were supplied" % (table, len(t.cols), len(given)))
            vals = given
        else:
            if len(cols) != len(given):
                raise OperationalError("%d values for %d columns" % (len(given), len(cols)))
            vals = [None] * len(t.cols)
            for c, v in zip(cols, given):
                if c not in t.cols:
                    raise OperationalError("table %s has no column named %s" % (table, c))
                vals[t.cols.index(c)] = v
        hit = self._pk_conflict(t, vals)
        if hit is not None:
            if action == "IGNORE":
                self.rowcount = 0
                return
            if action == "REPLACE":
                t.rows.remove(hit)
            else:
                raise IntegrityError("UNIQUE constraint failed: %s" % ", ".join("%s.%s" % (table, c) for c in t.pk))
        rid = (max(r[0] for r in t.rows) + 1) if t.rows else 1
        t.rows.append([rid] + vals)
        self.lastrowid = rid
        self.rowcount = 1

    def _update(self, ast, pos, named):
        _, table, sets, where = ast
        self.conn._begin()
        t = self._table(table)
        n = 0
        for r in list(t.rows):
            sc = _Scope()
            sc.add(table, t.cols, r)
            if where is not None and self._truth(where, sc, pos, named) is not True:
                continue
            new = list(r)
            for col, e in sets:
                if col not in t.cols:
                    raise OperationalError("no such column: %s" % col)
                new[t.cols.index(col) + 1] = self._value(e, sc, pos, named)
            if self._pk_conflict(t, new[1:], skip=r) is not None:
                raise IntegrityError("UNIQUE constraint failed: %s" % ", ".join("%s.%s" % (table, c) for c in t.pk))
            r[:] = new
            n += 1
        self.rowcount = n

    def _delete(self, ast, pos, named):
        _, table, where = ast
        self.conn._begin()
        t = self._table(table)
        keep = []
        n = 0
        for r in t.rows:
            sc = _Scope()
            sc.add(table, t.cols, r)
            if where is None or self._truth(where, sc, pos, named) is True:
                n += 1
            else:
                keep.append(r)
        t.rows = keep
        self.rowcount = n


def _pinned_aliases(e):
    """table aliases that a conjunct of the WHERE clause constrains with `alias.col = <param>`"""
    out = set()
    if e[0] == "and":
        return _pinned_aliases(e[1]) | _pinned_aliases(e[2])
    if e[0] == "cmp" and e[1] == "=":
        for a, b in ((e[2], e[3]), (e[3], e[2])):
            if a[0] == "col" and a[1] is not None and b[0] in ("param", "nparam"):
                out.add(a[1])
    return out


def _row_before(k1, k2, descs):
    for a, b, d in zip(k1, k2, descs):
        if _before(a, b):
            return not d
        if _before(b, a):
            return d
    return False


_PARSE_CACHE = {}


def sqlfe_parse(sql):
    try:
        return sqlfe.parse(sql)
    except sqlfe.SqlUnsupported as ex:
        raise NotImplementedError("simsql: %s" % ex)


class Connection:
    """A connection reads the committed store of its path until its first write, then works on a private copy
    until commit() - so other connections to the same path (FeatureDB.update opens one) see exactly the
    committed state, like separate sqlite connections do."""

    def __init__(self, path=":memory:"):
        self.path = path
        self._private = None
        if path == ":memory:":
            self._private = Store()
        elif path not in STORES:
            STORES[path] = Store()  # sqlite3.connect creates the (empty) file
        self.row_factory = None
        self.text_factory = str
        self.dirty = False
        self.isolation_level = ""

    @property
    def work(self):
        if self._private is not None:
            return self._private
        return STORES[self.path]

    def _begin(self):
        if self._private is None:
            self._private = STORES[self.path].copy()
        self.dirty = True

    def cursor(self):
        return Cursor(self)

    def execute(self, sql, params=()):
        return Cursor(self).execute(sql, params)

    def executemany(self, sql, seq):
        return Cursor(self).executemany(sql, seq)

    def executescript(self, script):
        return Cursor(self).executescript(script)

    def commit(self):
        if self.path != ":memory:" and self._private is not None:
            STORES[self.path] = self._private
            self._private = None
        self.dirty = False

    def rollback(self):
        if self.path != ":memory:":
            self._private = None
        self.dirty = False

    def close(self):
        pass


def connect(path, *a, **k):
    return Connection(path)


def snapshot(store):
    """plain-data view of a store (for before/after comparisons in harnesses)"""
    out = []
    for name in ("features", "relations", "meta", "directives", "autoincrements", "duplicates"):
        t = store.tables.get(name)
        out.append((name, [list(r) for r in t.rows] if t is not None else None))
    return out
