"""SQL front end shared by the SMT translator (Engine S) and the simsql stand-in (Engine X).

Covers the SQL subset gffutils emits; anything else raises SqlUnsupported so that a
statement outside the subset is reported as inconclusive, never silently accepted.

AST (plain tuples):
  expr   := ('col', table|None, name) | ('num', int) | ('str', s) | ('param', i) | ('nparam', name)
          | ('tok', text) | ('null',) | ('cmp', op, a, b) | ('arith', op, a, b) | ('and', a, b) | ('or', a, b)
          | ('not', a) | ('in', e, [exprs]) | ('insel', e, select) | ('func', name, [args]) | ('star',)
          | ('neg', a) | ('isnull', e, negated)
  select := ('select', distinct, [(expr, alias)], [source], where|None, [(expr, desc)], limit|None)
  source := ('table', name, alias, on|None) | ('subq', select, alias, on|None)
"""
import re


class SqlUnsupported(Exception):
    pass


_TOK = re.compile(
    r"""\s*(?:
      (?P<tok>\ue000\d+\ue001)
    | (?P<num>\d+)
    | (?P<str>'(?:[^']|'')*')
    | (?P<nparam>:[A-Za-z_][A-Za-z_0-9]*)
    | (?P<ident>[A-Za-z_][A-Za-z_0-9]*)
    | (?P<op><=|>=|==|!=|<>|[-+*/=<>(),.;?])
    )""",
    re.X,
)

KEYWORDS = {
    "SELECT", "DISTINCT", "FROM", "WHERE", "JOIN", "ON", "AS", "AND", "OR", "NOT", "IN", "ORDER", "BY", "ASC",
    "DESC", "INSERT", "INTO", "VALUES", "IGNORE", "REPLACE", "UPDATE", "SET", "DELETE", "CREATE", "TABLE",
    "INDEX", "DROP", "IF", "EXISTS", "PRAGMA", "ANALYZE", "NULL", "IS", "LIMIT", "GROUP", "HAVING", "LEFT",
    "INNER", "OUTER", "UNION", "PRIMARY", "KEY",
}


def tokenize(text):
    out = []
    pos = 0
    n = len(text)
    while True:
        m = _TOK.match(text, pos)
        if not m:
            if text[pos:].strip() == "":
                break
            raise SqlUnsupported("cannot tokenize at %r" % text[pos:pos + 30])
        pos = m.end()
        kind = m.lastgroup
        val = m.group(kind)
        if kind == "ident" and val.upper() in KEYWORDS:
            out.append(("kw", val.upper()))
        elif kind == "num":
            out.append(("num", int(val)))
        elif kind == "str":
            out.append(("str", val[1:-1].replace("''", "'")))
        else:
            out.append((kind, val))
        if pos >= n:
            break
    return out


class Parser:
    def __init__(self, text):
        self.text = text
        self.toks = tokenize(text)
        self.i = 0
        self.nparams = 0

    # -- helpers
    def peek(self, k=0):
        j = self.i + k
        return self.toks[j] if j < len(self.toks) else ("eof", None)

    def next(self):
        t = self.peek()
        self.i += 1
        return t

    def at_kw(self, *kws):
        t = self.peek()
        return t[0] == "kw" and t[1] in kws

    def at_op(self, *ops):
        t = self.peek()
        return t[0] == "op" and t[1] in ops

    def eat_kw(self, kw):
        if not self.at_kw(kw):
            raise SqlUnsupported("expected %s at token %d of %r, got %r" % (kw, self.i, self.text[:200], self.peek()))
        self.i += 1

    def eat_op(self, op):
        if not self.at_op(op):
            raise SqlUnsupported("expected %r at token %d of %r, got %r" % (op, self.i, self.text[:200], self.peek()))
        self.i += 1

    def ident(self):
        t = self.next()
        if t[0] == "ident":
            return t[1]
        # allow non-reserved use of a few keywords as identifiers (column `key`, `end` is not a keyword here)
        if t[0] == "kw" and t[1] in ("KEY", "REPLACE", "IGNORE"):
            return t[1].lower()
        raise SqlUnsupported("expected identifier, got %r in %r" % (t, self.text[:200]))

    # -- statements
    def statement(self):
        t = self.peek()
        if t[0] != "kw":
            raise SqlUnsupported("statement starts with %r" % (t,))
        if t[1] == "SELECT":
            s = self.select()
        elif t[1] == "INSERT":
            s = self.insert()
        elif t[1] == "UPDATE":
            s = self.update()
        elif t[1] == "DELETE":
            s = self.delete()
        elif t[1] in ("CREATE", "DROP", "PRAGMA", "ANALYZE"):
            return self.misc()
        else:
            raise SqlUnsupported("statement kind %s" % t[1])
        if self.at_op(";"):
            self.i += 1
        if self.peek()[0] != "eof":
            raise SqlUnsupported("trailing tokens %r in %r" % (self.toks[self.i:self.i + 4], self.text[:300]))
        return s

    def misc(self):
        words = [str(t[1]) for t in self.toks]
        kind = words[0].upper()
        if kind == "CREATE" and len(words) > 1 and words[1].upper() == "TABLE":
            if_not_exists = [w.upper() for w in words[2:5]] == ["IF", "NOT", "EXISTS"]
            if if_not_exists:
                self.toks = self.toks[:2] + self.toks[5:]
                words = words[:2] + words[5:]
            name = words[2]
            # column names up to the matching paren
            cols = []
            pk = []
            depth = 0
            cur = []
            for t in self.toks[3:]:
                if t == ("op", "("):
                    depth += 1
                    if depth == 1:
                        continue
                if t == ("op", ")"):
                    depth -= 1
                    if depth == 0:
                        if cur:
                            cols.append(cur)
                        break
                if depth == 1 and t == ("op", ","):
                    cols.append(cur)
                    cur = []
                    continue
                cur.append(t)
            names, types = [], []
            for c in cols:
                if c[0] == ("kw", "PRIMARY"):
                    pk = [t[1] for t in c if t[0] == "ident" or (t[0] == "kw" and t[1] not in ("PRIMARY", "KEY"))]
                    pk = [p.lower() if isinstance(p, str) else p for p in pk]
                    continue
                names.append(str(c[0][1]).lower() if c[0][0] == "kw" else c[0][1])
                types.append(str(c[1][1]).lower() if len(c) > 1 else "")
            return ("create_table", name, names, types, pk, if_not_exists)
        if kind == "CREATE" and len(words) > 1 and words[1].upper() == "INDEX":
            return ("create_index", words[2])
        if kind == "DROP":
            return ("drop_index", words[-1])
        if kind == "PRAGMA":
            return ("pragma",)
        if kind == "ANALYZE":
            return ("analyze",)
        raise SqlUnsupported("misc statement %r" % self.text[:100])

    def select(self):
        self.eat_kw("SELECT")
        distinct = False
        if self.at_kw("DISTINCT"):
            self.i += 1
            distinct = True
        items = []
        while True:
            if self.at_op("*"):
                self.i += 1
                e = ("star",)
            else:
                e = self.expr()
            alias = None
            if self.at_kw("AS"):
                self.i += 1
                alias = self.ident()
            items.append((e, alias))
            if self.at_op(","):
                self.i += 1
                continue
            break
        self.eat_kw("FROM")
        sources = [self.source(first=True)]
        while self.at_kw("JOIN", "INNER"):
            if self.at_kw("INNER"):
                self.i += 1
            self.eat_kw("JOIN")
            sources.append(self.source(first=False))
        where = None
        if self.at_kw("WHERE"):
            self.i += 1
            where = self.expr()
        order = []
        if self.at_kw("ORDER"):
            self.i += 1
            self.eat_kw("BY")
            while True:
                e = self.expr()
                desc = False
                if self.at_kw("ASC"):
                    self.i += 1
                elif self.at_kw("DESC"):
                    self.i += 1
                    desc = True
                order.append((e, desc))
                if self.at_op(","):
                    self.i += 1
                    continue
                break
        limit = None
        if self.at_kw("LIMIT"):
            self.i += 1
            limit = self.add()
        if self.at_kw("GROUP", "HAVING", "UNION", "LEFT"):
            raise SqlUnsupported("clause %s" % self.peek()[1])
        return ("select", distinct, items, sources, where, order, limit)

    def source(self, first):
        if self.at_op("("):
            self.i += 1
            sub = self.select()
            self.eat_op(")")
            alias = None
            if self.at_kw("AS"):
                self.i += 1
            if self.peek()[0] == "ident":
                alias = self.ident()
            src = ["subq", sub, alias, None]
        else:
            name = self.ident()
            alias = name
            if self.at_kw("AS"):
                self.i += 1
                alias = self.ident()
            elif self.peek()[0] == "ident":
                alias = self.ident()
            src = ["table", name, alias, None]
        if not first:
            if self.at_kw("ON"):
                self.i += 1
                src[3] = self.expr()
        return tuple(src)

    def insert(self):
        self.eat_kw("INSERT")
        action = None
        if self.at_kw("OR"):
            self.i += 1
            t = self.next()
            if t[0] != "kw" or t[1] not in ("IGNORE", "REPLACE"):
                raise SqlUnsupported("INSERT OR %r" % (t,))
            action = t[1]
        self.eat_kw("INTO")
        table = self.ident()
        cols = None
        if self.at_op("("):
            self.i += 1
            cols = []
            while True:
                cols.append(self.ident())
                if self.at_op(","):
                    self.i += 1
                    continue
                break
            self.eat_op(")")
        self.eat_kw("VALUES")
        self.eat_op("(")
        vals = []
        while True:
            vals.append(self.expr())
            if self.at_op(","):
                self.i += 1
                continue
            break
        self.eat_op(")")
        return ("insert", table, cols, action, vals)

    def update(self):
        self.eat_kw("UPDATE")
        table = self.ident()
        self.eat_kw("SET")
        sets = []
        while True:
            col = self.ident()
            self.eat_op("=")
            sets.append((col, self.add()))
            if self.at_op(","):
                self.i += 1
                continue
            break
        where = None
        if self.at_kw("WHERE"):
            self.i += 1
            where = self.expr()
        return ("update", table, sets, where)

    def delete(self):
        self.eat_kw("DELETE")
        self.eat_kw("FROM")
        table = self.ident()
        where = None
        if self.at_kw("WHERE"):
            self.i += 1
            where = self.expr()
        return ("delete", table, where)

    # -- expressions: OR < AND < NOT < comparison/IN < additive < multiplicative < unary < primary
    def expr(self):
        a = self.and_()
        while self.at_kw("OR"):
            self.i += 1
            a = ("or", a, self.and_())
        return a

    def and_(self):
        a = self.not_()
        while self.at_kw("AND"):
            self.i += 1
            a = ("and", a, self.not_())
        return a

    def not_(self):
        if self.at_kw("NOT"):
            self.i += 1
            return ("not", self.not_())
        return self.cmp()

    def cmp(self):
        a = self.add()
        while True:
            if self.at_op("=", "==", "<", "<=", ">", ">=", "!=", "<>"):
                op = self.next()[1]
                op = {"==": "=", "<>": "!="}.get(op, op)
                a = ("cmp", op, a, self.add())
            elif self.at_kw("IN") or (self.at_kw("NOT") and self.peek(1) == ("kw", "IN")):
                neg = False
                if self.at_kw("NOT"):
                    self.i += 1
                    neg = True
                self.i += 1
                self.eat_op("(")
                if self.at_kw("SELECT"):
                    sub = self.select()
                    self.eat_op(")")
                    a = ("insel", a, sub)
                else:
                    lst = []
                    if not self.at_op(")"):
                        while True:
                            lst.append(self.expr())
                            if self.at_op(","):
                                self.i += 1
                                continue
                            break
                    self.eat_op(")")
                    a = ("in", a, lst)
                if neg:
                    a = ("not", a)
            elif self.at_kw("IS"):
                self.i += 1
                neg = False
                if self.at_kw("NOT"):
                    self.i += 1
                    neg = True
                self.eat_kw("NULL")
                a = ("isnull", a, neg)
            else:
                return a

    def add(self):
        a = self.mul()
        while self.at_op("+", "-"):
            op = self.next()[1]
            a = ("arith", op, a, self.mul())
        return a

    def mul(self):
        a = self.unary()
        while self.at_op("*", "/"):
            op = self.next()[1]
            a = ("arith", op, a, self.unary())
        return a

    def unary(self):
        if self.at_op("-"):
            self.i += 1
            return ("neg", self.unary())
        if self.at_op("+"):
            self.i += 1
            return self.unary()
        return self.primary()

    def primary(self):
        t = self.next()
        if t[0] == "num":
            return ("num", t[1])
        if t[0] == "str":
            return ("str", t[1])
        if t[0] == "tok":
            return ("tok", t[1])
        if t[0] == "nparam":
            return ("nparam", t[1][1:])
        if t == ("op", "?"):
            self.nparams += 1
            return ("param", self.nparams - 1)
        if t == ("kw", "NULL"):
            return ("null",)
        if t == ("op", "("):
            if self.at_kw("SELECT"):
                raise SqlUnsupported("scalar subquery")
            e = self.expr()
            self.eat_op(")")
            return e
        if t[0] == "ident" or (t[0] == "kw" and t[1] in ("KEY", "REPLACE")):
            name = t[1] if t[0] == "ident" else t[1].lower()
            if self.at_op("("):
                self.i += 1
                args = []
                if self.at_op("*"):
                    self.i += 1
                    args.append(("star",))
                elif not self.at_op(")"):
                    while True:
                        args.append(self.expr())
                        if self.at_op(","):
                            self.i += 1
                            continue
                        break
                self.eat_op(")")
                return ("func", name.lower(), args)
            if self.at_op("."):
                self.i += 1
                col = self.ident()
                return ("col", name, col)
            return ("col", None, name)
        raise SqlUnsupported("unexpected token %r in %r" % (t, self.text[:300]))


_CACHE = {}


def parse(text):
    """-> (ast, nparams).  Cached by text (concrete statements only; text with tokens is not cached)."""
    if "\ue000" not in text and text in _CACHE:
        return _CACHE[text]
    p = Parser(text)
    ast = p.statement()
    r = (ast, p.nparams)
    if "\ue000" not in text:
        _CACHE[text] = r
    return r


def split_script(text):
    return [s for s in (x.strip() for x in text.split(";")) if s]
