"""CrossHair plugin stub (--extra_plugin execs this text): the patches live in a real module."""
import vlib.xh_patches  # noqa: F401
