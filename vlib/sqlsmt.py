"""SQL expression -> z3, with SQLite's three-valued logic, over symbolic rows (Engine S).

A row is a dict column -> Val.  Val = (null: z3 Bool, term: z3 Int/String, sort 'int'|'text').
Truth values are pairs (t, f): definitely-true and definitely-false; WHERE keeps a row iff t.

Assumptions stated in DESIGN.md: integers are mathematical (|x| < 2**62 in SQLite terms); text
compares by code point (BINARY collation); a parameter that is a decimal token produced by
str(int) and compared with an INTEGER-affinity column compares numerically (SQLite applies
the column's affinity to the text operand)."""
import z3

from vlib import symx
from vlib.sqlfe import SqlUnsupported

FEATURE_COLS = {
    "id": "text", "seqid": "text", "source": "text", "featuretype": "text", "start": "int", "end": "int",
    "score": "text", "strand": "text", "frame": "text", "attributes": "text", "extra": "text", "bin": "int",
    "rowid": "int",
}
RELATION_COLS = {"parent": "text", "child": "text", "level": "int"}
TABLES = {"features": FEATURE_COLS, "relations": RELATION_COLS}


class Val:
    def __init__(self, null, term, sort):
        self.null, self.term, self.sort = null, term, sort


class RangeVal:
    """a symbolic half-open integer interval (from range(lo, hi)) used where SQL expects one value:
    `col = ?` / `col IN (...)` mean membership"""

    def __init__(self, lo, hi):
        self.lo, self.hi = lo, hi


def sym_row(table, suffix, nullable=("start", "end", "bin")):
    row = {}
    for col, sort in TABLES[table].items():
        name = "%s_%s%s" % (table[:3], col, suffix)
        term = z3.Int(name) if sort == "int" else z3.String(name)
        null = z3.Bool(name + "_isnull") if col in nullable else z3.BoolVal(False)
        row[col] = Val(null, term, sort)
    return row


def const(x):
    if x is None:
        return Val(z3.BoolVal(True), z3.IntVal(0), "int")
    if isinstance(x, symx.SymStr):
        return Val(z3.BoolVal(False), x.t, "text")
    if isinstance(x, symx.SymInt):
        return Val(z3.BoolVal(False), x.t, "int")
    if isinstance(x, symx.RangeMarker):
        return RangeVal(symx._t(x.lo), symx._t(x.hi))
    if isinstance(x, bool):
        return Val(z3.BoolVal(False), z3.IntVal(int(x)), "int")
    if isinstance(x, int):
        return Val(z3.BoolVal(False), z3.IntVal(x), "int")
    if isinstance(x, str):
        v = symx.token_value(x)
        if v is not None:
            return const(v)
        if symx.TOK_OPEN in x:
            raise SqlUnsupported("text mixing symbolic tokens and literal characters: %r" % x)
        return Val(z3.BoolVal(False), z3.StringVal(x), "text")
    raise SqlUnsupported("parameter of type %s" % type(x).__name__)


class Env:
    def __init__(self, rows, params, named=None):
        self.rows = rows  # alias -> row dict
        self.params = list(params)
        self.named = named or {}


def _col(env, table, name):
    name_l = name
    if table is not None:
        if table not in env.rows:
            raise SqlUnsupported("unknown table alias %s" % table)
        row = env.rows[table]
        if name_l not in row:
            raise SqlUnsupported("unknown column %s.%s" % (table, name))
        return row[name_l]
    hits = [r[name_l] for r in env.rows.values() if name_l in r]
    if len(hits) != 1:
        raise SqlUnsupported("column %s is %s" % (name, "ambiguous" if hits else "unknown"))
    return hits[0]


def value(e, env):
    k = e[0]
    if k == "col":
        return _col(env, e[1], e[2])
    if k == "num":
        return const(e[1])
    if k == "str":
        return const(e[1])
    if k == "tok":
        return const(e[1])
    if k == "null":
        return const(None)
    if k == "param":
        if e[1] >= len(env.params):
            raise SqlUnsupported("statement has more placeholders than arguments")
        return const(env.params[e[1]])
    if k == "nparam":
        return const(env.named[e[1]])
    if k == "neg":
        v = value(e[1], env)
        return Val(v.null, -v.term, "int")
    if k == "arith":
        a, b = value(e[2], env), value(e[3], env)
        if a.sort != "int" or b.sort != "int":
            raise SqlUnsupported("arithmetic on text")
        op = e[1]
        if op == "+":
            t = a.term + b.term
        elif op == "-":
            t = a.term - b.term
        elif op == "*":
            t = a.term * b.term
        else:
            raise SqlUnsupported("operator %s" % op)
        return Val(z3.Or(a.null, b.null), t, "int")
    raise SqlUnsupported("value expression %r" % (k,))


def _cmp(op, a, b):
    """-> (t, f) for non-range operands"""
    if isinstance(a, RangeVal) or isinstance(b, RangeVal):
        if op != "=":
            raise SqlUnsupported("range operand with operator %s" % op)
        r, v = (a, b) if isinstance(a, RangeVal) else (b, a)
        inside = z3.And(r.lo <= v.term, v.term < r.hi)
        return z3.And(z3.Not(v.null), inside), z3.And(z3.Not(v.null), z3.Not(inside))
    anynull = z3.Or(a.null, b.null)
    if a.sort != b.sort:
        # INTEGER < TEXT in SQLite's cross-type ordering
        lt = z3.BoolVal(a.sort == "int")
        eq = z3.BoolVal(False)
    elif a.sort == "int":
        lt, eq = a.term < b.term, a.term == b.term
    else:
        lt, eq = a.term < b.term, a.term == b.term
    c = {"=": eq, "!=": z3.Not(eq), "<": lt, "<=": z3.Or(lt, eq), ">": z3.And(z3.Not(lt), z3.Not(eq)),
         ">=": z3.Not(lt)}[op]
    return z3.And(z3.Not(anynull), c), z3.And(z3.Not(anynull), z3.Not(c))


def truth(e, env):
    """-> (t, f)"""
    k = e[0]
    if k == "and":
        a, b = truth(e[1], env), truth(e[2], env)
        return z3.And(a[0], b[0]), z3.Or(a[1], b[1])
    if k == "or":
        a, b = truth(e[1], env), truth(e[2], env)
        return z3.Or(a[0], b[0]), z3.And(a[1], b[1])
    if k == "not":
        a = truth(e[1], env)
        return a[1], a[0]
    if k == "cmp":
        return _cmp(e[1], value(e[2], env), value(e[3], env))
    if k == "in":
        v = value(e[1], env)
        ts, fs = [], []
        for x in e[2]:
            t, f = _cmp("=", v, value(x, env))
            ts.append(t)
            fs.append(f)
        if not ts:
            return z3.BoolVal(False), z3.BoolVal(True)
        return z3.Or(ts), z3.And(fs)
    if k == "isnull":
        v = value(e[1], env)
        return (z3.Not(v.null), v.null) if e[2] else (v.null, z3.Not(v.null))
    # a bare value used as a truth value
    v = value(e, env)
    if v.sort == "int":
        return z3.And(z3.Not(v.null), v.term != 0), z3.And(z3.Not(v.null), v.term == 0)
    raise SqlUnsupported("text used as a truth value")


def select_predicate(ast, rows, params, named=None):
    """For a (possibly joined) SELECT over base tables: z3 Bool 'this combination of rows is
    produced', plus the list of ORDER BY key Vals (with desc flags)."""
    if ast[0] != "select":
        raise SqlUnsupported("not a SELECT")
    _, distinct, items, sources, where, order, limit = ast
    if limit is not None:
        raise SqlUnsupported("LIMIT in a per-row translation")
    env = Env({}, params, named)
    for src in sources:
        if src[0] != "table":
            raise SqlUnsupported("sub-select source in a per-row translation")
        if src[2] not in rows:
            raise SqlUnsupported("no symbolic row supplied for %s" % src[2])
        env.rows[src[2]] = rows[src[2]]
    conj = []
    for src in sources:
        if src[3] is not None:
            conj.append(truth(src[3], env)[0])
    if where is not None:
        conj.append(truth(where, env)[0])
    keys = []
    aliases = {alias: ex for ex, alias in items if alias}
    for e, desc in order:
        if e[0] == "col" and e[1] is None and e[2] in aliases and not any(e[2] in r for r in env.rows.values()):
            e = aliases[e[2]]  # ORDER BY <select-list alias>
        keys.append((value(e, env), desc))
    return z3.And(conj) if conj else z3.BoolVal(True), keys


def before(keys1, keys2):
    """SQLite ordering: strict 'row1 sorts before row2' and 'tie' for ORDER BY keys (NULLs first)."""
    lt = z3.BoolVal(False)
    tie = z3.BoolVal(True)
    for (a, desc), (b, _) in zip(keys1, keys2):
        if isinstance(a, RangeVal) or isinstance(b, RangeVal):
            raise SqlUnsupported("range in ORDER BY")
        if a.sort != b.sort:
            raise SqlUnsupported("mixed sorts in ORDER BY")
        a_lt_b = z3.Or(z3.And(a.null, z3.Not(b.null)), z3.And(z3.Not(a.null), z3.Not(b.null), a.term < b.term))
        b_lt_a = z3.Or(z3.And(b.null, z3.Not(a.null)), z3.And(z3.Not(a.null), z3.Not(b.null), b.term < a.term))
        first = b_lt_a if desc else a_lt_b
        eq = z3.And(z3.Not(a_lt_b), z3.Not(b_lt_a))
        lt = z3.Or(lt, z3.And(tie, first))
        tie = z3.And(tie, eq)
    return lt, tie
