"""Common prelude of the CrossHair harness modules (vlib/harness/*.py)."""
import atexit
import collections
import os
import sys

SYMBOLIC = os.environ.get("VERIF_SYMBOLIC") == "1"
PATHS = [0]


def tick():
    """counts executions of a harness body (= symbolic paths tried by CrossHair)"""
    PATHS[0] += 1


@atexit.register
def _report():
    try:
        sys.stderr.write("VERIF-PATHS %d\n" % PATHS[0])
    except Exception:
        pass


def bound(name, default):
    return int(os.environ.get(name, default))


def sel(name, default):
    return os.environ.get(name, default)


def bare_db():
    """A FeatureDB object without a database, for the methods that never touch one
    (merge, interfeatures)."""
    from gffutils import constants
    from gffutils.interface import FeatureDB
    db = FeatureDB.__new__(FeatureDB)
    db.dialect = constants.dialect
    db.keep_order = False
    db.sort_attribute_values = False
    db._autoincrements = collections.defaultdict(int)
    return db


def msg(fmt, *args):
    """Diagnostic text of a failed check.  Under CrossHair nothing symbolic may be formatted (repr of a
    symbolic value makes CrossHair drop the path as 'proxy intolerance'), so only the constant part is used;
    the real-stack replay produces the full text."""
    if SYMBOLIC:
        return fmt
    try:
        return fmt % args
    except Exception:
        return fmt + " " + repr(args)


def pick(v, alphabet):
    """v is constrained to `alphabet`: returns the matching CONSTANT (a concrete object), so that C-level code
    (float(), hashing, % formatting) downstream sees concrete values while the choice itself stays a solver decision"""
    for a in alphabet:
        if v == a:
            return a
    raise AssertionError("value outside its alphabet")
