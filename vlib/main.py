"""./check <ID> [--tier quick|thorough] [--replay file]"""
import argparse
import importlib
import json
import os
import sys
import traceback


def main():
    ap = argparse.ArgumentParser()
    ap.add_argument("prop")
    ap.add_argument("--tier", default=os.environ.get("VERIF_TIER", "quick"), choices=["quick", "thorough"])
    ap.add_argument("--replay", default=None)
    a = ap.parse_args()
    seed = int(os.environ.get("VERIF_SEED", "0") or 0)
    try:
        mod = importlib.import_module("vlib.props." + a.prop.lower())
    except ModuleNotFoundError:
        print("HARNESS-ERROR no check for property %s" % a.prop)
        return 3
    if a.replay:
        with open(a.replay) as f:
            obj = json.load(f)
        from vlib import replay
        return replay.run(mod, obj)
    try:
        return mod.run(a.tier, seed)
    except Exception:
        traceback.print_exc()
        print("HARNESS-ERROR %s: uncaught exception in the check itself" % a.prop)
        return 3


if __name__ == "__main__":
    sys.exit(main())
